#!/usr/bin/env python3
"""Regenerates MANIFEST.json from the table below (keeps it schema-valid at all times)."""
import json
import os

HERE = os.path.dirname(os.path.abspath(__file__))

# property -> (claimed?, level text, level note, technique, design_ref)
CHECKS = {}
NOT_APPLICABLE = {}


def claim(pid, text, note, technique, ref):
    CHECKS[pid] = dict(text=text, note=note, technique=technique, ref=ref)


exec(open(os.path.join(HERE, "manifest_table.py")).read())

props = [json.loads(l)["id"] for l in open(os.path.join(HERE, "properties.jsonl"))]
checks = []
for pid in props:
    if pid in CHECKS:
        c = CHECKS[pid]
        checks.append(dict(
            property_id=pid,
            quick_cmd="./check %s --tier quick" % pid,
            thorough_cmd="./check %s --tier thorough" % pid,
            evidence_file="evidence/%s.json" % pid,
            replay_cmd_template="./check --replay {path}",
            engine="symexec",
            level_claimed=dict(category="model_checking", text=c["text"], design_ref=c["ref"]),
            level_note=c["note"],
            technique=c["technique"]))
na = [dict(property_id=pid, reason=NOT_APPLICABLE.get(pid, "check not built yet in this round (see DESIGN.md section 3 for the plan)"))
      for pid in props if pid not in CHECKS]
m = dict(
    version=1,
    setup_cmd="sh ./setup.sh",
    hooks=dict(guard="DENDROPY_VERIF", enable="no hooks are needed: checks import /repo/src directly (the guard variable is reserved and unused)",
               baseline_off_cmd="cd /repo && /venv/bin/python -m pytest -q -p no:cacheprovider --timeout=900 --continue-on-collection-errors",
               source_commits=[], add_only=True),
    engines=[dict(name="symexec", path="vlib/driver.py", serves_properties=sorted(CHECKS),
                  kind_free_text="bounded symbolic execution of the real DendroPy functions with CrossHair 0.0.110 used as a library "
                                 "(explore_paths-style loop, z3 decides every branch); AST->z3 bit-vector translation of the integer "
                                 "kernels (vlib/ast2smt.py) for the bitmask algebra")],
    checks=checks,
    not_applicable=na,
    notes="Genuine defects: known_findings.json (5 recorded findings printed as KNOWN-FINDING lines, 31 entries 'fixed:' with their "
          "'fix:' commits in /repo). Seeded changes used to test the checks: seeded/<id>/<k>/ (100, see DESIGN.md 7.4; "
          "scripts/seeds_all.sh replays them in a scratch worktree). Thorough evidence is also kept under evidence/thorough/. "
          "Every claim is bounded; bounds, functions encoded, solver queries and solver time are in each evidence file. "
          "An INCONCLUSIVE harness (path tree not exhausted inside the time budget) is reported as such and never as success.")
with open(os.path.join(HERE, "MANIFEST.json"), "w") as f:
    json.dump(m, f, indent=1)
print("claimed:", sorted(CHECKS), "not applicable:", [x["property_id"] for x in na])
