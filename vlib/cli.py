"""./check <ID> [--tier T] [--only h1,h2] [--budget S]   |   ./check --replay <file>"""
import argparse
import importlib
import json
import os
import sys
import time

from vlib import driver, report


def main():
    ap = argparse.ArgumentParser()
    ap.add_argument("prop", nargs="?")
    ap.add_argument("--tier", default=os.environ.get("VERIF_TIER", "quick"))
    ap.add_argument("--only", default=None)
    ap.add_argument("--budget", type=float, default=None)
    ap.add_argument("--replay", default=None)
    ap.add_argument("--no-evidence", action="store_true")
    a = ap.parse_args()
    seed = int(os.environ.get("VERIF_SEED", "0") or 0)
    if a.replay:
        with open(a.replay) as f:
            rp = json.load(f)
        modname = "props." + rp["property"].lower()
        h = driver.load_harness(modname, rp.get("tier", "quick"), rp["harness"])
        v, where, detail = driver.run_concrete(h.fn, rp["inputs"], 60.0)
        print("replay harness=%s verdict=%s where=%s" % (rp["harness"], v, where))
        if detail:
            print(detail)
        sys.exit(0 if v is True else 1)
    prop = a.prop.upper()
    tier = a.tier if a.tier in ("quick", "thorough") else "quick"
    modname = "props." + prop.lower()
    t0 = time.time()
    mod = importlib.import_module(modname)
    only = a.only.split(",") if a.only else None
    engine_b = None
    eb_lines, eb_code = [], 0
    if hasattr(mod, "engine_b") and only is None:
        engine_b, eb_lines, eb_code = mod.engine_b(tier, seed)
    hs, by_h = driver.run_harnesses(modname, tier, only=only, total_budget_s=a.budget, seed=seed)
    if os.environ.get("VERIF_DUMP"):
        os.makedirs("scratch", exist_ok=True)
        with open("scratch/dump_%s.json" % prop, "w") as f:
            json.dump(by_h, f, indent=1, default=str)
    code, lines, ev = report.summarize(prop, tier, seed, hs, by_h, engine_b=engine_b,
                                       wall_s=time.time() - t0,
                                       extra_assumptions=getattr(mod, "ASSUMPTIONS", ()))
    if eb_code == 1 or code == 1:
        code = 1
    elif eb_code:
        code = eb_code
    for ln in eb_lines + lines:
        print(ln)
    ev["wall_s"] = round(time.time() - t0, 2)
    if eb_code == 1:
        ev["violations"] = ev.get("violations", 0) + sum(1 for l in eb_lines if l.startswith("VIOLATION"))
    if not a.no_evidence and only is None:
        p = report.write_evidence(prop, ev)
        if tier == "thorough":
            # keep a copy of the deepest run next to the (quick) evidence that every run rewrites
            import shutil
            d = os.path.join(os.path.dirname(p), "thorough")
            os.makedirs(d, exist_ok=True)
            shutil.copy(p, os.path.join(d, prop + ".json"))
        print("evidence: %s  wall=%.1fs" % (p, ev["wall_s"]))
    sys.exit(code)


if __name__ == "__main__":
    main()
