"""Aggregation of shard results into verdicts, evidence files and exit codes."""
import json
import os
import time

VERIF = os.path.dirname(os.path.dirname(os.path.abspath(__file__)))
KNOWN = os.path.join(VERIF, "known_findings.json")


def load_known():
    if not os.path.exists(KNOWN):
        return []
    with open(KNOWN) as f:
        return json.load(f)


def match_known(known, prop, hid, fail):
    """A failure matches a finding iff property, harness, label, where and input_class match
    (a key missing from the finding's signature is a wildcard)."""
    for k in known:
        if k.get("property") != prop or k.get("status") != "finding":
            continue
        sig = k.get("signature", {})
        if sig.get("harness") not in (None, hid):
            continue
        if "failure" in sig and sig["failure"] != fail["label"]:
            continue
        if "where" in sig and sig["where"] != (fail.get("replay_where") or fail.get("where")):
            continue
        if "input_class" in sig and sig["input_class"] != fail.get("input_class"):
            continue
        return k
    return None


def summarize(prop, tier, seed, hs, by_h, engine_b=None, wall_s=0.0, extra_assumptions=()):
    """Returns (exit_code, lines, evidence_dict)."""
    known = load_known()
    lines = []
    exit_code = 0
    harness_ev = []
    tot = dict(paths=0, ok=0, fail=0, ignored=0, unknown=0, queries=0, sat=0, unsat=0,
               solver_s=0.0, validated=0)
    samples = []
    violations = 0
    known_hits = {}
    all_exhaustive = True
    functions_entered = set()
    os.makedirs(os.path.join(VERIF, "evidence", "replays"), exist_ok=True)
    for h in hs:
        rs = by_h.get(h.id, [])
        hev = dict(harness=h.id, shards=len(h.shards), shards_run=len(rs),
                   shards_exhausted=sum(1 for r in rs if r.get("exhausted")),
                   bounds=h.bounds, functions_declared=h.functions, outside_claim=h.outside,
                   assumptions=h.assumptions)
        for k in ("paths", "ok", "fail", "ignored", "unknown", "queries", "sat", "unsat",
                  "solver_s", "validated", "hang_candidates"):
            hev[k] = sum(r.get(k, 0) for r in rs)
            if k in tot:
                tot[k] += hev[k]
        hev["solver_s"] = round(hev["solver_s"], 3)
        hev["explore_wall_s_sum"] = round(sum(r.get("explore_wall_s", 0) for r in rs), 2)
        errors = [r["error"] for r in rs if r.get("error")]
        fe = set()
        for r in rs:
            fe.update(r.get("functions_entered", []))
        functions_entered |= fe
        hev["functions_entered"] = len(fe)
        exhaustive = (len(rs) == len(h.shards) and all(r.get("exhausted") for r in rs)
                      and hev["unknown"] == 0 and not errors)
        hev["exhaustive"] = exhaustive
        unk = {}
        for r in rs:
            for k, v in (r.get("unknown_kinds") or {}).items():
                unk[k] = unk.get(k, 0) + v
        if unk:
            hev["unknown_kinds"] = unk
        # ---- failures
        n_viol = 0
        n_known = 0
        n_nonrepro = 0
        fk = {}
        for r in rs:
            for k, v in (r.get("fail_key_counts") or {}).items():
                fk[k] = fk.get(k, 0) + v
        if fk:
            hev["failing_paths_by_signature"] = fk
        reported = set()
        for r in rs:
            for f in r.get("fails", []):
                rv = f.get("replay_verdict")
                if rv == "skipped":
                    continue
                if rv is True or rv == "ignored" or rv != f["label"]:
                    # does not reproduce concretely with the same label
                    if f["label"] == "hang":
                        # slow under tracing only: the path is unknown, not failed
                        hev["unknown"] += 1
                        tot["unknown"] += 1
                        exhaustive = False
                        hev["exhaustive"] = False
                        continue
                    n_nonrepro += 1
                    key = ("nonrepro", f["label"])
                    if key not in reported:
                        reported.add(key)
                        lines.append("HARNESS-ERROR property=%s harness=%s counterexample does not "
                                     "reproduce: label=%s replay=%s inputs=%s" %
                                     (prop, h.id, f["label"], rv, json.dumps(f["inputs"])[:300]))
                    continue
                k = match_known(known, prop, h.id, f)
                if k is not None:
                    n_known += 1
                    kid = k.get("id") or k.get("what")
                    if kid not in known_hits:
                        known_hits[kid] = k
                    continue
                n_viol += 1
                key = (f["label"], f.get("replay_where"), f.get("input_class"))
                if key in reported:
                    continue
                reported.add(key)
                rp = os.path.join(VERIF, "evidence", "replays",
                                  "%s-%d.json" % (h.id, len(reported)))
                with open(rp, "w") as fo:
                    json.dump(dict(property=prop, harness=h.id, tier=tier, inputs=f["inputs"],
                                   failure=f["label"], where=f.get("replay_where"),
                                   input_class=f.get("input_class"),
                                   detail=f.get("replay_detail") or f.get("detail")), fo, indent=1)
                lines.append("VIOLATION property=%s replay=%s" % (prop, rp))
                lines.append("  harness=%s failure=%s where=%s class=%s inputs=%s" %
                             (h.id, f["label"], f.get("replay_where"), f.get("input_class"),
                              json.dumps(f["inputs"])[:400]))
        for r in rs:
            for b in r.get("validated_bad", []):
                if b.get("verdict") == "ignored":
                    # the concrete run left the harness's input domain (an assumption failed) although the symbolic
                    # run with the same values stayed inside: the code under test broke a tie differently (set /
                    # dict order over objects hashed by address, e.g. equally distant leaf pairs in midpoint
                    # rooting).  Nothing failed; the path is simply not counted as validated.
                    hev["replays_diverged_into_ignored"] = hev.get("replays_diverged_into_ignored", 0) + 1
                    continue
                n_nonrepro += 1
                lines.append("HARNESS-ERROR property=%s harness=%s passing path does not replay: %s"
                             % (prop, h.id, json.dumps(b)[:500]))
        for e in errors:
            lines.append("HARNESS-ERROR property=%s harness=%s %s" % (prop, h.id, e[:600]))
        flaky = [r for r in rs if r.get("flaky")]
        if flaky:
            hev["flaky_shards"] = len(flaky)
            hev["flaky_detail"] = flaky[0]["flaky"]
            lines.append("NOTE property=%s harness=%s %d shard(s) lost their search tree %d times in a row (CrossHair "
                         "NotDeterministic; seen under machine overload) and count as not exhausted"
                         % (prop, h.id, len(flaky), flaky[0].get("attempts", 0)))
        if hev["ok"] == 0 and hev["paths"] > 0 and not errors and n_viol == 0 and n_known == 0:
            lines.append("HARNESS-ERROR property=%s harness=%s vacuous: no path reached the oracle"
                         % (prop, h.id))
            n_nonrepro += 1
        hev["violations"] = n_viol
        hev["known_finding_paths"] = n_known
        hev["nonreproducing"] = n_nonrepro
        violations += n_viol
        if n_viol:
            exit_code = 1
        elif (n_nonrepro or errors) and exit_code == 0:
            exit_code = 2
        if n_viol:
            v = "VIOLATION"
        elif n_nonrepro or errors:
            v = "HARNESS-ERROR"
        elif exhaustive:
            v = "HOLDS-WITHIN-BOUNDS" + (" (known findings excepted)" if n_known else "")
        else:
            v = "INCONCLUSIVE (no violation on %d explored paths; %d/%d shards exhausted, %d unknown paths)" % (
                hev["paths"], hev["shards_exhausted"], len(h.shards), hev["unknown"])
        hev["verdict"] = v
        all_exhaustive = all_exhaustive and exhaustive
        lines.append("%s %s: %s  paths=%d ok=%d ignored=%d unknown=%d queries=%d solver=%.1fs" % (
            prop, h.id, v, hev["paths"], hev["ok"], hev["ignored"], hev["unknown"],
            hev["queries"], hev["solver_s"]))
        if os.environ.get("VERIF_VERBOSE"):
            for r in sorted(rs, key=lambda r: json.dumps(r.get("shard"), sort_keys=True)):
                lines.append("    shard %s exhausted=%s paths=%d ok=%d fail=%d unknown=%d hang=%d wall=%.1fs solver=%.1fs" % (
                    json.dumps(r.get("shard")), r.get("exhausted"), r.get("paths", 0), r.get("ok", 0), r.get("fail", 0),
                    r.get("unknown", 0), r.get("hang_candidates", 0), r.get("wall_s", 0), r.get("solver_s", 0)))
        for r in rs:
            for s in r.get("samples", [])[:1]:
                if len(samples) < 12:
                    samples.append(dict(harness=h.id, inputs=s))
        harness_ev.append(hev)
    for kid, k in known_hits.items():
        lines.append("KNOWN-FINDING: property=%s %s" % (prop, k.get("what")))
    cov = dict(states=tot["paths"], transitions=tot["queries"],
               traces_validated_against_impl=tot["validated"],
               samples=samples or [dict(note="no passing path")],
               exhaustive=bool(all_exhaustive and (engine_b is None or engine_b.get("all_discharged", True))),
               paths_ok=tot["ok"], paths_failed=tot["fail"], paths_outside_assumptions=tot["ignored"],
               paths_unknown=tot["unknown"],
               solver_queries=tot["queries"], solver_sat=tot["sat"], solver_unsat=tot["unsat"],
               solver_seconds=round(tot["solver_s"], 3),
               functions_encoded=sorted(functions_entered),
               harnesses=harness_ev,
               known_findings_hit=sorted(known_hits.keys()),
               explanation="states = symbolic paths executed through the real code (each a "
                           "conjunction of solver-decided branch conditions); transitions = solver "
                           "queries discharged; a harness is exhaustive only if its path tree was "
                           "exhausted in every shard with no unknown path")
    if engine_b is not None:
        cov["engine_b"] = engine_b
        cov["obligations"] = engine_b.get("obligations", 0)
        cov["discharged"] = engine_b.get("discharged", 0)
        if cov["states"] == 0:
            cov["states"] = max(1, engine_b.get("obligations", 0))
            cov["transitions"] = max(1, engine_b.get("obligations", 0))
    if cov["states"] == 0:
        cov["states"] = 1
    if cov["transitions"] == 0:
        cov["transitions"] = 1
    assumptions = ["CPython, CrossHair 0.0.110 and z3 are trusted",
                   "floats are modelled as reals; integers are exact",
                   "claims are bounded as stated per harness under coverage.harnesses[*].bounds"]
    assumptions += list(extra_assumptions)
    ev = dict(property_id=prop, tier=tier, seed=seed, level="model_checking", coverage=cov,
              assumptions=assumptions, wall_s=round(wall_s, 2), violations=violations)
    return exit_code, lines, ev


def write_evidence(prop, ev):
    p = os.path.join(VERIF, "evidence", prop + ".json")
    os.makedirs(os.path.dirname(p), exist_ok=True)
    with open(p, "w") as f:
        json.dump(ev, f, indent=1, sort_keys=True, default=str)
    return p
