"""Environment stubs.  Every stub's contract is an assumption of the claim (listed in evidence)."""
from vlib.driver import assume, choose, Fail


class OutOfDraws(Exception):
    pass


class SymRng:
    """Stands in for random.Random.  Integer draws and real draws are consumed, in order, from two
    lists of harness parameters (symbolic under CrossHair, plain values on replay), constrained
    only by the documented range of each generator method."""

    def __init__(self, ints=(), reals=(), margin=1e-6):
        self.ints = list(ints)
        self.reals = list(reals)
        self.i = 0
        self.r = 0
        self.margin = margin
        self.log = []

    def _int(self, n):
        if self.i >= len(self.ints):
            assume(False)  # outside the draw budget
        d = self.ints[self.i]
        self.i += 1
        v = choose(d, n)
        self.log.append(("int", n, v))
        return v

    def _real(self, lo, hi, scale):
        """next real draw: an integer parameter d with lo <= d <= hi (one fork: the conjunction is
        built with & so that it stays a single solver term), returned as d / scale"""
        if self.r >= len(self.reals):
            assume(False)
        d = self.reals[self.r]
        self.r += 1
        assume((d >= lo) & (d <= hi))
        return d / scale

    # --- integer-valued
    def randrange(self, start, stop=None, step=1):
        if stop is None:
            start, stop = 0, start
        n = (stop - start + step - 1) // step
        if n <= 0:
            raise ValueError("empty range for randrange()")
        return start + step * self._int(n)

    def randint(self, a, b):
        return a + self._int(b - a + 1)

    def choice(self, seq):
        if len(seq) == 0:
            raise IndexError("Cannot choose from an empty sequence")
        return seq[self._int(len(seq))]

    def shuffle(self, x):
        for i in range(len(x) - 1, 0, -1):
            j = self._int(i + 1)
            x[i], x[j] = x[j], x[i]

    def sample(self, population, k):
        pool = list(population)
        n = len(pool)
        if not 0 <= k <= n:
            raise ValueError("Sample larger than population or is negative")
        out = []
        for i in range(k):
            j = self._int(n - i)
            out.append(pool[j])
            pool[j] = pool[n - i - 1]
        return out

    # --- real-valued (grid of 1e-6; the draw itself stays symbolic)
    def random(self):
        return self._real(0, 999999, 1000000.0)

    def uniform(self, a, b):
        return a + (b - a) * self._real(0, 1000000, 1000000.0)

    def expovariate(self, lambd):
        # the draw itself is the waiting time (any positive value is possible for every rate);
        # lambd is concrete in all harnesses so nothing else depends on it
        return self._real(1, 10 ** 9, 1000000.0)

    def gauss(self, mu, sigma):
        if sigma == 0:
            return mu
        return mu + self._real(-10 ** 9, 10 ** 9, 1000000.0)

    normalvariate = gauss


class Tripwire:
    """Installed in place of a global RNG: any use fails the path."""

    def __getattr__(self, name):
        raise Fail("stray-use-of-global-rng", name)


class Sink:
    """Write-only stream: the document is the concatenation of the parts."""

    def __init__(self):
        self.parts = []

    def write(self, s):
        self.parts.append(s)
        return len(s)

    def flush(self):
        pass

    def getvalue(self):
        out = ""
        for p in self.parts:
            out = out + p
        return out


class SymStream:
    """Read-only text stream over a (possibly symbolic) str.  Counts reads at EOF."""

    def __init__(self, text, eof_budget=200):
        self.text = text
        self.pos = 0
        self.eof_reads = 0
        self.eof_budget = eof_budget

    def read(self, n=-1):
        if n is None or n < 0:
            out = self.text[self.pos:]
            self.pos = len(self.text)
            return out
        if self.pos >= len(self.text):
            self.eof_reads += 1
            if self.eof_reads > self.eof_budget:
                raise Fail("hang", "reader keeps reading at end of stream")
            return ""
        out = self.text[self.pos:self.pos + n]
        self.pos += n
        return out

    def readline(self):
        if self.pos >= len(self.text):
            self.eof_reads += 1
            if self.eof_reads > self.eof_budget:
                raise Fail("hang", "reader keeps reading at end of stream")
            return ""
        i = self.pos
        n = len(self.text)
        while i < n and self.text[i] != "\n":
            i += 1
        if i < n:
            i += 1
        out = self.text[self.pos:i]
        self.pos = i
        return out

    def __iter__(self):
        return self

    def __next__(self):
        ln = self.readline()
        if ln == "":
            raise StopIteration
        return ln

    def close(self):
        pass
