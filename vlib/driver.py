"""Engine A: bounded symbolic execution of real DendroPy code with CrossHair as a library.

A *harness* is a plain Python function with typed parameters.  Parameters named in a shard are
passed concretely; all the others are symbolic values created by CrossHair (z3 underneath).  The
harness builds real dendropy objects, calls the real API and returns ``True`` (property held on
this path) or a failure label (``str``).  Every ``if`` on a symbolic value is a solver query; the
path tree is explored until exhausted or until the time budget ends (inconclusive, never success).
"""
import inspect
import json
import multiprocessing
import os
import signal
import sys
import time
import traceback

REPO_SRC = os.environ.get("VERIF_REPO_SRC", "/repo/src")
if REPO_SRC not in sys.path:
    sys.path.insert(0, REPO_SRC)


class HangDetected(BaseException):
    """Raised by the per-path watchdog inside the code under test (BaseException so that
    ``except Exception`` in harness or library code does not swallow it)."""


class Harness:
    def __init__(self, hid, prop, fn, shards, bounds, functions=(), assumptions=(),
                 classify=None, outside=(), path_timeout=None, shard_budget=None, cost=1.0):
        self.id = hid
        self.prop = prop
        self.fn = fn
        self.shards = shards            # list of dict(param -> concrete value)
        self.bounds = bounds            # dict, free text values
        self.functions = list(functions)  # declared real functions under test (R in DESIGN)
        self.assumptions = list(assumptions)
        self.outside = list(outside)
        self.classify = classify        # inputs(dict) -> str   (input_class for known findings)
        self.path_timeout = path_timeout
        self.shard_budget = shard_budget
        self.cost = cost


# ------------------------------------------------------------------------------------------
# helpers usable inside harness bodies


def assume(cond):
    """Discard the path unless cond holds (forks on symbolic cond)."""
    if not cond:
        from crosshair.util import IgnoreAttempt
        raise IgnoreAttempt("assume")


def choose(sym, k):
    """Bounded nondeterministic choice: concretise a symbolic int into range(k)."""
    for i in range(k):
        if sym == i:
            return i
    assume(False)


def fresh(typ, name):
    """A fresh symbolic value mid-run (only valid under CrossHair); None when replaying."""
    from crosshair.core import proxy_for_type
    return proxy_for_type(typ, name)


def top_repo_frame(exc):
    """module.function of the innermost frame inside the repo for an exception."""
    tb = exc.__traceback__
    where = None
    while tb is not None:
        fn = tb.tb_frame.f_code.co_filename
        if "/dendropy/" in fn and "/verif/" not in fn:
            mod = fn.split("/dendropy/", 1)[1][:-3].replace("/", ".")
            where = mod + "." + tb.tb_frame.f_code.co_name
        tb = tb.tb_next
    return where


class LazyArgs:
    """Mapping handed to a harness under symbolic execution: a parameter becomes a symbolic
    value only when the harness first reads it (every symbolic value costs solver work on every
    path, so parameters a path never looks at are never created).  Shard values are concrete."""

    def __init__(self, types, shard):
        self._types = types
        self._vals = dict(shard)
        self.created = []

    def __getitem__(self, name):
        try:
            return self._vals[name]
        except KeyError:
            pass
        from crosshair.core import proxy_for_type
        typ = self._types[name]
        v = proxy_for_type(typ, name + "_%d" % len(self.created))
        self._vals[name] = v
        self.created.append(name)
        return v

    def get(self, name, default=None):
        if name in self._vals or name in self._types:
            return self[name]
        return default

    def __contains__(self, name):
        return name in self._vals or name in self._types

    def renamed(self, **names):
        """a view in which reading ``new`` reads parameter ``names[new]`` (still lazily)"""
        return _Renamed(self, names)


class _Renamed:
    def __init__(self, base, names):
        self._base = base
        self._names = names

    def __getitem__(self, name):
        return self._base[self._names.get(name, name)]

    def get(self, name, default=None):
        return self._base.get(self._names.get(name, name), default)


class ConcreteArgs(dict):
    """plain-value counterpart of LazyArgs used for replay; unread parameters default to
    0 / False / '' """

    def __init__(self, types, values):
        dict.__init__(self)
        for k, t in types.items():
            self[k] = {int: 0, bool: False, str: "", float: 0.0, list: []}.get(t, None)
        self.update(values)

    def renamed(self, **names):
        return _Renamed(self, names)


def spec_types(fn):
    sig = inspect.signature(fn)
    return {n: p.annotation for n, p in sig.parameters.items()}


class Fail(Exception):
    """Raise inside a harness to report a failure with a label."""

    def __init__(self, label, detail=""):
        Exception.__init__(self, label, detail)
        self.label = label
        self.detail = detail


def _plain(x):
    """JSON-able deep copy of realized inputs."""
    if isinstance(x, bool) or x is None:
        return x
    if isinstance(x, int):
        return int(x)
    if isinstance(x, float):
        return float(x)
    if isinstance(x, str):
        return str(x)
    if isinstance(x, (list, tuple)):
        return [_plain(i) for i in x]
    if isinstance(x, dict):
        return {str(k): _plain(v) for k, v in x.items()}
    return repr(x)


# ------------------------------------------------------------------------------------------
# concrete execution (replay) with a watchdog


def _alarm_handler(signum, frame):
    raise HangDetected()


def _arm(timeout):
    """Watchdog: `timeout` seconds of CPU time of this process (so a loaded machine does not turn a
    slow path into a hang), with a wall-clock backstop for a path that blocks without using the CPU."""
    signal.signal(signal.SIGPROF, _alarm_handler)
    signal.signal(signal.SIGALRM, _alarm_handler)
    signal.setitimer(signal.ITIMER_PROF, timeout)
    signal.setitimer(signal.ITIMER_REAL, max(60.0, timeout * 20))


def _disarm():
    signal.setitimer(signal.ITIMER_PROF, 0)
    signal.setitimer(signal.ITIMER_REAL, 0)


def run_concrete(fn, kwargs, timeout):
    """Run the harness on plain values.  Returns (verdict, where, detail).

    verdict: True | failure-label | 'ignored' | 'hang'
    """
    _arm(timeout)
    try:
        try:
            r = fn.__wrapped_harness__(ConcreteArgs(spec_types(fn), kwargs))
        finally:
            _disarm()
    except HangDetected:
        return "hang", None, "no termination within %.1fs concretely" % timeout
    except Fail as e:
        return e.label, None, str(e.detail)
    except BaseException as e:  # noqa
        if type(e).__name__ == "IgnoreAttempt":
            return "ignored", None, ""
        if isinstance(e, (KeyboardInterrupt, SystemExit)):
            raise
        return ("exc:" + type(e).__name__, top_repo_frame(e),
                "".join(traceback.format_exception(type(e), e, e.__traceback__))[-1500:])
    if r is True:
        return True, None, ""
    if isinstance(r, tuple):
        return str(r[0]), (r[1] if len(r) > 1 else None), (str(r[2]) if len(r) > 2 else "")
    return str(r), None, ""


class _Profiler:
    def __init__(self):
        self.seen = set()

    def __call__(self, frame, event, arg):
        if event == "call":
            co = frame.f_code
            fn = co.co_filename
            if "/dendropy/" in fn and fn.startswith(REPO_SRC):
                self.seen.add(fn.split("/dendropy/", 1)[1][:-3].replace("/", ".") + "." +
                              getattr(co, "co_qualname", co.co_name))


# ------------------------------------------------------------------------------------------
# one shard = one CrossHair search tree


def _explore_shard(h, shard, budget_s, path_timeout, max_fail_keep=40, max_samples=6):
    from crosshair.core_and_libs import standalone_statespace  # noqa: registers lib impls
    import crosshair.statespace as ss
    from crosshair.core import (ExceptionFilter, Patched, deep_realize, gen_args)
    from crosshair.condition_parser import condition_parser
    from crosshair.copyext import CopyMode, deepcopyext
    from crosshair.options import DEFAULT_OPTIONS
    from crosshair.statespace import (CallAnalysis, RootNode, StateSpace, StateSpaceContext,
                                      VerificationStatus)
    from crosshair.tracers import COMPOSITE_TRACER, NoTracing, ResumedTracing
    from crosshair.util import CrossHairInternal, IgnoreAttempt, NotDeterministic, UnexploredPath

    # Floats are modelled as reals in every claim (DESIGN 2.5).  CrossHair would otherwise also
    # fork into an IEEE-754 (z3 FP theory) representation whose int->fp conversions take
    # seconds per query.
    import crosshair.libimpl.builtinslib as _bl
    _bl._PYTYPE_TO_WRAPPER_TYPE[float] = ((_bl.RealBasedSymbolicFloat, 1.0),)

    stats = dict(queries=0, sat=0, unsat=0, solver_s=0.0)
    orig = ss.solver_is_sat

    def counting(solver, *exprs):
        t0 = time.perf_counter()
        try:
            r = orig(solver, *exprs)
        finally:
            stats["solver_s"] += time.perf_counter() - t0
            stats["queries"] += 1
        if r:
            stats["sat"] += 1
        else:
            stats["unsat"] += 1
        return r

    ss.solver_is_sat = counting

    fn = h.fn
    types = spec_types(fn)
    options = DEFAULT_OPTIONS
    root = RootNode()
    res = dict(harness=h.id, shard=shard, paths=0, ok=0, fail=0, ignored=0, unknown=0,
               hang_candidates=0, fails=[], samples=[], passing=[], exhausted=False,
               nondeterministic=0, error=None)
    t_start = time.time()
    seen_fail_keys = {}
    while True:
        if time.time() - t_start > budget_s:
            break
        itr_start = time.process_time()
        space = StateSpace(execution_deadline=itr_start + path_timeout * 4,
                           model_check_timeout=path_timeout * 2, search_root=root)
        status = None
        verdict = None
        inputs = None
        q0 = stats["queries"]
        with condition_parser(options.analysis_kind), Patched(), COMPOSITE_TRACER, NoTracing(), \
                StateSpaceContext(space):
            try:
                lazy = LazyArgs(types, shard)
                ret = None
                hang = False
                try:
                    with ExceptionFilter() as efilter:
                        _arm(path_timeout)
                        try:
                            with ResumedTracing():
                                ret = fn.__wrapped_harness__(lazy)
                        finally:
                            _disarm()
                except HangDetected:
                    hang = True
                if hang:
                    verdict = ("hang", None, "watchdog under tracing")
                elif efilter.ignore and efilter.user_exc is None:
                    raise IgnoreAttempt("assume")
                elif efilter.user_exc:
                    exc = efilter.user_exc[0]
                    if isinstance(exc, NotDeterministic):
                        raise NotDeterministic
                    if isinstance(exc, Fail):
                        verdict = (exc.label, None, str(exc.detail)[:500])
                    else:
                        verdict = ("exc:" + type(exc).__name__, top_repo_frame(exc),
                                   (type(exc).__name__ + ": " + str(exc))[:500])
                else:
                    with ResumedTracing():
                        if ret is True:
                            verdict = True
                        elif isinstance(ret, tuple):
                            verdict = (str(ret[0]), None, "")
                        else:
                            verdict = (str(ret), None, "")
                # Detach before realizing: realization of a symbolic value is itself a decision
                # (value == v / value != v); on a detached path it no longer grows the search
                # tree, so one program path is one leaf.
                if hang:
                    # the watchdog may have interrupted CrossHair itself: realise defensively, and
                    # never let a cut path count as an explored leaf of the search tree
                    try:
                        with ResumedTracing():
                            space.detach_path()
                        inputs = _plain(deep_realize(dict((k, lazy._vals[k]) for k in lazy.created)))
                        inputs.update(shard)
                    except BaseException:  # noqa
                        inputs = None
                    if inputs is None:
                        verdict = None
                        res["unknown"] += 1
                    status = VerificationStatus.UNKNOWN
                else:
                    with ResumedTracing():
                        space.detach_path()
                    inputs = _plain(deep_realize(dict((k, lazy._vals[k]) for k in lazy.created)))
                    inputs.update(shard)
                    status = VerificationStatus.CONFIRMED
            except IgnoreAttempt:
                status = None
                res["ignored"] += 1
            except UnexploredPath as e:
                status = VerificationStatus.UNKNOWN
                res["unknown"] += 1
                res.setdefault("unknown_kinds", {})
                k = type(e).__name__
                res["unknown_kinds"][k] = res["unknown_kinds"].get(k, 0) + 1
            except (NotDeterministic, CrossHairInternal) as e:
                res["nondeterministic"] += 1
                res["error"] = "NotDeterministic"
                res["error_detail"] = repr(e)[:300]
                break
            finally:
                _disarm()
            try:
                _a, exhausted = space.bubble_status(CallAnalysis(status))
            except (NotDeterministic, CrossHairInternal) as e:
                res["nondeterministic"] += 1
                res["error"] = "NotDeterministic"
                res["error_detail"] = repr(e)[:300]
                break
        res["paths"] += 1
        if verdict is True:
            res["ok"] += 1
            if len(res["passing"]) < 400:
                res["passing"].append(inputs)
        elif verdict is not None:
            if verdict[0] == "hang":
                res["hang_candidates"] += 1
            res["fail"] += 1
            key = (verdict[0], verdict[1])
            seen_fail_keys[key] = seen_fail_keys.get(key, 0) + 1
            if seen_fail_keys[key] <= max_fail_keep:
                res["fails"].append(dict(inputs=inputs, label=verdict[0], where=verdict[1],
                                         detail=verdict[2], decisions=stats["queries"] - q0))
        if exhausted:
            res["exhausted"] = True
            break
    res["fail_key_counts"] = {"%s@%s" % k: v for k, v in seen_fail_keys.items()}
    res["explore_wall_s"] = time.time() - t_start
    ss.solver_is_sat = orig
    res.update(stats)
    return res


def _shard_task(arg):
    (modname, tier, hid, shard_idx, budget_s, deadline, nshards, procs, pos) = arg
    t0 = time.time()
    try:
        h = load_harness(modname, tier, hid)
        shard = h.shards[shard_idx]
        if nshards > procs:
            # an equal share of what is left of the slice for every shard not yet started (shards are handed out in
            # order): each one gets started, and time that finished shards did not need goes to the later, larger ones
            budget_s = min(budget_s, max(3.0, (deadline - t0) * procs / max(1, nshards - pos)))
        budget_s = min(budget_s, deadline - t0)
        if budget_s < 1.0:
            return dict(harness=hid, shard=shard, shard_idx=shard_idx, not_run=True, paths=0, ok=0, fail=0, ignored=0,
                        unknown=0, fails=[], samples=[], exhausted=False, queries=0, sat=0,
                        unsat=0, solver_s=0.0, validated=0, validated_bad=[],
                        functions_entered=[], hang_candidates=0, wall_s=0.0)
        path_timeout = h.path_timeout or (2.0 if tier == "quick" else 6.0)
        # A search tree that stops matching the execution (CrossHair: NotDeterministic) has so far
        # only been seen when the machine is overloaded (a solver query or the watchdog timing out on
        # one visit of a prefix and not on the next).  The shard is explored again from an empty
        # tree; if that keeps happening the shard is reported as not exhausted (flaky), never as held.
        attempts = 0
        while True:
            attempts += 1
            res = _explore_shard(h, shard, max(1.0, budget_s - (time.time() - t0)), path_timeout)
            if res.get("error") != "NotDeterministic":
                break
            if attempts >= 3 or time.time() - t0 > budget_s * 0.8:
                res["flaky"] = res.get("error_detail") or "NotDeterministic"
                res["error"] = None
                res["exhausted"] = False
                break
        res["attempts"] = attempts
        res["shard_idx"] = shard_idx
        # ---- concrete replay of failures (outside CrossHair) and validation of passing paths
        replay_timeout = max(10.0, path_timeout * 5)
        nhang = 0
        for f in res["fails"]:
            if f["label"] == "hang":
                nhang += 1
                if nhang > 3:
                    # every further hang candidate of this shard costs a full timeout to
                    # replay; three reproduced ones are enough to report
                    f["replay_verdict"] = "skipped"
                    f["replay_where"] = None
                    f["replay_detail"] = ""
                    continue
            v, where, detail = run_concrete(h.fn, f["inputs"], replay_timeout)
            f["replay_verdict"] = v if v is True else str(v)
            f["replay_where"] = where
            f["replay_detail"] = detail[-1200:] if detail else ""
            if h.classify is not None:
                try:
                    f["input_class"] = h.classify(ConcreteArgs(spec_types(h.fn), f["inputs"]))
                except Exception as e:  # noqa
                    f["input_class"] = "classify-error:" + repr(e)
        prof = _Profiler()
        validated = 0
        bad = []
        for inp in res["passing"][:200]:
            sys.setprofile(prof)
            try:
                v, where, detail = run_concrete(h.fn, inp, replay_timeout)
            finally:
                sys.setprofile(None)
            if v is True:
                validated += 1
            else:
                bad.append(dict(inputs=inp, verdict=str(v), where=where, detail=detail[-800:]))
        res["validated"] = validated
        res["validated_bad"] = bad[:10]
        res["functions_entered"] = sorted(prof.seen)
        res["samples"] = res["passing"][:3]
        del res["passing"]
        res["wall_s"] = time.time() - t0
        return res
    except BaseException as e:  # noqa
        return dict(harness=hid, shard_idx=shard_idx, error="worker-exception: " + repr(e) +
                    traceback.format_exc()[-1500:], paths=0, ok=0, fail=0, ignored=0, unknown=0,
                    fails=[], samples=[], exhausted=False, queries=0, sat=0, unsat=0,
                    solver_s=0.0, validated=0, validated_bad=[], functions_entered=[],
                    hang_candidates=0, wall_s=time.time() - t0)


_HARNESS_CACHE = {}


def load_harness(modname, tier, hid):
    key = (modname, tier)
    if key not in _HARNESS_CACHE:
        import importlib
        mod = importlib.import_module(modname)
        _HARNESS_CACHE[key] = {h.id: h for h in mod.harnesses(tier)}
    return _HARNESS_CACHE[key][hid]


def run_harnesses(modname, tier, only=None, total_budget_s=None, procs=None, seed=0):
    """Run every harness of a property module; returns list of per-harness summaries."""
    import importlib
    import random
    mod = importlib.import_module(modname)
    hs = [h for h in mod.harnesses(tier) if only is None or h.id in only]
    procs = procs or int(os.environ.get("VERIF_PROCS", "16"))
    if total_budget_s is None:
        default = getattr(mod, "BUDGET", {}).get(tier, 150 if tier == "quick" else 900)
        total_budget_s = float(os.environ.get("VERIF_BUDGET_S", default))
    # Shards are processed in the order the harness lists them (smallest bounds first), the
    # harnesses one after the other.  Every shard runs until its path tree is exhausted,
    # its own cap is reached, or the global deadline passes; shards that start after the
    # deadline are not run (reported as not exhausted).
    import crosshair.core_and_libs  # noqa: pre-import so that forked workers start fast
    import dendropy  # noqa
    # Harnesses run one after the other, each inside its own slice of the budget (proportional
    # to Harness.cost); time a harness does not use rolls over to the next ones.  Within a
    # harness the shards are processed in the order listed (smallest bounds first); a shard runs
    # until its path tree is exhausted, its cap is reached or the slice ends; shards that would
    # start after the end of the slice are not run (reported as not exhausted).
    t_begin = time.time()
    t_end = t_begin + total_budget_s
    ctx = multiprocessing.get_context("fork")
    results = []
    remaining_cost = sum(h.cost for h in hs) or 1.0
    for h in hs:
        now = time.time()
        slice_s = max(5.0, (t_end - now) * h.cost / remaining_cost)
        remaining_cost -= h.cost
        deadline = now + slice_s
        args = []
        for i in range(len(h.shards)):
            cap = h.shard_budget or slice_s
            args.append((modname, tier, h.id, i, cap, deadline, len(h.shards), procs, i))
        first = {}
        with ctx.Pool(processes=min(procs, max(1, len(args))), maxtasksperchild=1) as pool:
            for r in pool.imap_unordered(_shard_task, args, chunksize=1):
                first[_shard_key(h, r)] = r
        # Second pass: shards that were cut by their share (or never started) although the slice is not used up are
        # explored again from an empty tree with what is left of the slice, shared among them only.
        left = [i for i in range(len(h.shards))
                if not first.get(i, {}).get("exhausted") and not first.get(i, {}).get("fail") and not first.get(i, {}).get("error")]
        if left and len(h.shards) > procs and deadline - time.time() > 10.0:
            args2 = [(modname, tier, h.id, i, h.shard_budget or slice_s, deadline, len(left), procs, pos)
                     for pos, i in enumerate(left)]
            with ctx.Pool(processes=min(procs, len(args2)), maxtasksperchild=1) as pool:
                for r in pool.imap_unordered(_shard_task, args2, chunksize=1):
                    k = _shard_key(h, r)
                    old = first.get(k)
                    if old is None or r.get("exhausted") or r.get("fail") or r.get("paths", 0) >= old.get("paths", 0):
                        r["second_pass"] = True
                        first[k] = r
        results.extend(first.values())
    by_h = {}
    for r in results:
        by_h.setdefault(r["harness"], []).append(r)
    return hs, by_h


def _shard_key(h, r):
    """index of the shard a result belongs to"""
    if "shard_idx" in r:
        return r["shard_idx"]
    sh = r.get("shard")
    for i, x in enumerate(h.shards):
        if x is sh or x == sh:
            return i
    return id(r)


def with_signature(spec):
    """Decorator: give ``fn(**kw)`` an explicit typed signature so CrossHair creates symbolic
    values for it.  spec = [(name, type), ...]"""
    def deco(fn):
        params = [inspect.Parameter(n, inspect.Parameter.KEYWORD_ONLY, annotation=t)
                  for n, t in spec]
        fn.__signature__ = inspect.Signature(params)
        fn.__wrapped_harness__ = fn     # called with one mapping argument (LazyArgs / ConcreteArgs)
        return fn
    return deco
