"""Engine B: translate small pure integer/bit kernels from their live source into z3 terms.

Python ints are modelled as two's-complement bit-vectors of width W+2 with inputs constrained to
[0, 2^W): then ``~ & | ^`` are exact, and ``x - 1`` / ``x + 1`` cannot overflow.  Supported subset:
assignments, if/elif/else, return, raise (path excluded), ``& | ^ ~ + -``, comparisons,
``and/or/not``, int/bool constants, attribute reads (free variables), ``isinstance(x, int)``
(resolved from the declared kind of the argument), calls to other translated functions.
Anything else raises NotImplementedError: the obligation is then *not encoded* (inconclusive).
"""
import ast
import inspect
import textwrap

import z3

RAISE = object()


class Translator:
    def __init__(self, width, callees=None):
        self.W = width
        self.BW = width + 2
        self.callees = dict(callees or {})   # dotted name -> python function
        self.encoded = []

    # ------------------------------------------------------------------ values
    def bv(self, v):
        if isinstance(v, bool):
            return v
        if isinstance(v, int):
            return z3.BitVecVal(v, self.BW)
        return v

    def var(self, name):
        return z3.BitVec(name, self.BW)

    def in_range(self, *vs):
        return z3.And(*[z3.And(v >= 0, v < z3.BitVecVal(1 << self.W, self.BW)) for v in vs])

    def truth(self, v):
        if isinstance(v, bool):
            return z3.BoolVal(v)
        if z3.is_bool(v):
            return v
        if isinstance(v, int):
            return z3.BoolVal(v != 0)
        if z3.is_bv(v):
            return v != 0
        if v is None:
            return z3.BoolVal(False)
        raise NotImplementedError("truth of %r" % (v,))

    # ------------------------------------------------------------------ function translation
    def fn_ast(self, fn):
        src = textwrap.dedent(inspect.getsource(fn))
        t = ast.parse(src)
        f = t.body[0]
        assert isinstance(f, ast.FunctionDef)
        return f

    def call(self, fn, args, attrs=None, kinds=None):
        """Symbolically evaluates fn on args (dict name -> z3/py value).  attrs: dict
        (object name, attribute) -> value.  kinds: name -> 'int' | 'obj' for isinstance().
        Returns a z3 term (Bool or BitVec); paths that raise get an unconstrained fresh value and
        are reported in .raises as their path conditions."""
        f = self.fn_ast(fn)
        name = getattr(fn, "__qualname__", fn.__name__)
        if name not in self.encoded:
            self.encoded.append(name)
        env = {}
        params = [a.arg for a in f.args.args]
        defaults = f.args.defaults
        dvals = {}
        for p, d in zip(params[len(params) - len(defaults):], defaults):
            dvals[p] = ast.literal_eval(d)
        for p in params:
            if p in args:
                env[p] = args[p]
            elif p in dvals:
                env[p] = dvals[p]
            elif p == "self":
                env[p] = ("obj", "self")
            else:
                raise NotImplementedError("missing argument %s for %s" % (p, name))
        self._attrs = attrs or {}
        self._kinds = kinds or {}
        outs = self.block(f.body, env, z3.BoolVal(True))
        self.raises = [pc for pc, v in outs if v is RAISE]
        vals = [(pc, v) for pc, v in outs if v is not RAISE]
        if not vals:
            raise NotImplementedError("no returning path in %s" % name)
        isbool = all(isinstance(v, bool) or z3.is_bool(v) for _, v in vals)
        res = None
        for pc, v in reversed(vals):
            v = self.truth(v) if isbool else self.bv(v)
            res = v if res is None else z3.If(pc, v, res)
        return res

    def block(self, stmts, env, pc):
        for i, st in enumerate(stmts):
            if isinstance(st, ast.Expr) and isinstance(st.value, ast.Constant):
                continue
            if isinstance(st, ast.Pass):
                continue
            if isinstance(st, ast.Assign):
                if len(st.targets) != 1 or not isinstance(st.targets[0], ast.Name):
                    raise NotImplementedError("assignment target")
                env[st.targets[0].id] = self.expr(st.value, env)
                continue
            if isinstance(st, ast.AugAssign):
                if not isinstance(st.target, ast.Name):
                    raise NotImplementedError("augassign target")
                env[st.target.id] = self.binop(st.op, env[st.target.id], self.expr(st.value, env))
                continue
            if isinstance(st, ast.Return):
                return [(pc, self.expr(st.value, env) if st.value is not None else None)]
            if isinstance(st, ast.Raise):
                return [(pc, RAISE)]
            if isinstance(st, ast.Assert):
                continue
            if isinstance(st, ast.If):
                c = self.expr(st.test, env)
                rest = stmts[i + 1:]
                if isinstance(c, bool):
                    return self.block((st.body if c else st.orelse) + rest, env, pc)
                c = self.truth(c)
                a = self.block(st.body + rest, dict(env), z3.And(pc, c))
                b = self.block(st.orelse + rest, dict(env), z3.And(pc, z3.Not(c)))
                return a + b
            raise NotImplementedError("statement %s" % type(st).__name__)
        return [(pc, None)]

    def binop(self, op, a, b):
        if isinstance(a, int) and isinstance(b, int) and not isinstance(a, bool):
            a = self.bv(a)
        a, b = self.bv(a), self.bv(b)
        if isinstance(op, ast.BitAnd):
            return a & b
        if isinstance(op, ast.BitOr):
            return a | b
        if isinstance(op, ast.BitXor):
            return a ^ b
        if isinstance(op, ast.Add):
            return a + b
        if isinstance(op, ast.Sub):
            return a - b
        raise NotImplementedError("operator %s" % type(op).__name__)

    def dotted(self, node):
        if isinstance(node, ast.Name):
            return node.id
        if isinstance(node, ast.Attribute):
            return self.dotted(node.value) + "." + node.attr
        raise NotImplementedError("callee")

    def expr(self, e, env):
        if isinstance(e, ast.Constant):
            if isinstance(e.value, (bool, int, str)) or e.value is None:
                return e.value
            raise NotImplementedError("constant %r" % (e.value,))
        if isinstance(e, ast.Name):
            if e.id in env:
                return env[e.id]
            raise NotImplementedError("name %s" % e.id)
        if isinstance(e, ast.Attribute):
            base = self.expr(e.value, env) if not (isinstance(e.value, ast.Name) and e.value.id not in env) else None
            if isinstance(base, tuple) and base[0] == "obj":
                key = (base[1], e.attr)
                if key in self._attrs:
                    return self._attrs[key]
            raise NotImplementedError("attribute %s" % ast.unparse(e))
        if isinstance(e, ast.BinOp):
            return self.binop(e.op, self.expr(e.left, env), self.expr(e.right, env))
        if isinstance(e, ast.UnaryOp):
            v = self.expr(e.operand, env)
            if isinstance(e.op, ast.Invert):
                return ~self.bv(v)
            if isinstance(e.op, ast.Not):
                if isinstance(v, bool):
                    return not v
                return z3.Not(self.truth(v))
            if isinstance(e.op, ast.USub):
                return -self.bv(v)
            raise NotImplementedError("unary")
        if isinstance(e, ast.BoolOp):
            vs = [self.truth(self.expr(v, env)) for v in e.values]
            return z3.And(*vs) if isinstance(e.op, ast.And) else z3.Or(*vs)
        if isinstance(e, ast.Compare):
            if len(e.ops) != 1:
                raise NotImplementedError("chained comparison")
            a = self.expr(e.left, env)
            b = self.expr(e.comparators[0], env)
            op = e.ops[0]
            if isinstance(a, str) or isinstance(b, str):
                if isinstance(a, str) and isinstance(b, str):
                    return (a == b) if isinstance(op, ast.Eq) else (a != b)
                raise NotImplementedError("string comparison")
            if isinstance(op, (ast.Is, ast.IsNot)):
                if b is None:
                    r = a is None
                    return r if isinstance(op, ast.Is) else not r
                raise NotImplementedError("is")
            if (isinstance(a, bool) or z3.is_bool(a)) or (isinstance(b, bool) or z3.is_bool(b)):
                a, b = self.truth(a), self.truth(b)
                if isinstance(op, ast.Eq):
                    return a == b
                if isinstance(op, ast.NotEq):
                    return a != b
                raise NotImplementedError("bool compare")
            a, b = self.bv(a), self.bv(b)
            if isinstance(op, ast.Eq):
                return a == b
            if isinstance(op, ast.NotEq):
                return a != b
            if isinstance(op, ast.Lt):
                return a < b
            if isinstance(op, ast.LtE):
                return a <= b
            if isinstance(op, ast.Gt):
                return a > b
            if isinstance(op, ast.GtE):
                return a >= b
            raise NotImplementedError("comparison")
        if isinstance(e, ast.IfExp):
            c = self.expr(e.test, env)
            if isinstance(c, bool):
                return self.expr(e.body if c else e.orelse, env)
            return z3.If(self.truth(c), self.bv(self.expr(e.body, env)), self.bv(self.expr(e.orelse, env)))
        if isinstance(e, ast.Call):
            name = self.dotted(e.func)
            if name == "isinstance":
                arg = e.args[0]
                if isinstance(arg, ast.Name) and arg.id in self._kinds:
                    return self._kinds[arg.id] == "int"
                raise NotImplementedError("isinstance of unknown kind")
            if name in self.callees:
                callee = self.callees[name]
                f = self.fn_ast(callee)
                params = [a.arg for a in f.args.args]
                args = {}
                if name.startswith("self."):
                    params = params[1:]
                    args["self"] = ("obj", "self")
                for p, a in zip(params, e.args):
                    args[p] = self.expr(a, env)
                for k in e.keywords:
                    args[k.arg] = self.expr(k.value, env)
                sub = Translator(self.W, self.callees)
                sub.encoded = self.encoded
                r = sub.call(callee, args, attrs=self._attrs, kinds=self._kinds)
                if sub.raises:
                    raise NotImplementedError("callee may raise")
                return r
            raise NotImplementedError("call %s" % name)
        raise NotImplementedError("expression %s" % type(e).__name__)


def popcount_le1(x, width):
    """independent definition: at most one bit set (sum of the bits <= 1)"""
    bits = [z3.ZeroExt(7, z3.Extract(i, i, x)) for i in range(width)]
    s = bits[0]
    for b in bits[1:]:
        s = s + b
    return z3.ULE(s, z3.BitVecVal(1, 8)) if width < 200 else None


def eval_term(term, assignment):
    """Concrete evaluation of a z3 term under {var: int}."""
    subs = [(v, z3.BitVecVal(val, v.size()) if z3.is_bv(v) else z3.BoolVal(val)) for v, val in assignment.items()]
    r = z3.simplify(z3.substitute(term, *subs))
    if z3.is_bool(r):
        return z3.is_true(r)
    return r.as_signed_long()
