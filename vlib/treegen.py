"""Building real dendropy trees from (symbolic) parent vectors + first-principles oracles.

Oracles read only the raw link fields (``_parent_node``, ``_child_nodes``, ``_edge``,
``edge.length``, ``taxon``), never the API under test.
"""
import sys
import os

REPO_SRC = os.environ.get("VERIF_REPO_SRC", "/repo/src")
if REPO_SRC not in sys.path:
    sys.path.insert(0, REPO_SRC)

import dendropy  # noqa: E402
from dendropy.datamodel.treemodel import Node, Tree  # noqa: E402
from vlib.driver import assume, choose, Fail  # noqa: E402

LABELS = ["A", "B", "C", "D", "E", "F", "G", "H", "I", "J"]


def concretize_parents(sym_parents):
    """sym_parents[i] is the parent of node i+1 and must be in [0, i]."""
    out = []
    for i, p in enumerate(sym_parents):
        out.append(choose(p, i + 1))
    return out


def shape_ok(parents, allow_unifurcations=True, min_leaves=1, max_leaves=None,
             allow_unary_root=True):
    n = len(parents) + 1
    nch = [0] * n
    for p in parents:
        nch[p] += 1
    leaves = sum(1 for c in nch if c == 0)
    if leaves < min_leaves:
        return False
    if max_leaves is not None and leaves > max_leaves:
        return False
    if not allow_unifurcations:
        for i, c in enumerate(nch):
            if c == 1:
                return False
    elif not allow_unary_root and nch[0] == 1:
        return False
    return True


def build(parents, lengths=None, rooted=True, tns=None, labels=None, internal_taxa=False,
          leaf_taxa=True, internal_labels=None):
    """Real Tree from a concrete parent vector.  Node i>0 hangs below parents[i-1].

    lengths[i] is the edge length of node i (None = leave unset).  Leaves get taxa named
    labels[k] in node-index order.  Returns (tree, nodes).
    """
    n = len(parents) + 1
    if tns is None:
        tns = dendropy.TaxonNamespace()
    tree = Tree(taxon_namespace=tns)
    nodes = [tree.seed_node]
    for i in range(1, n):
        nodes.append(Node())
    for i in range(1, n):
        nodes[parents[i - 1]].add_child(nodes[i])
    if lengths is not None:
        for i in range(n):
            if i < len(lengths) and lengths[i] is not None:
                nodes[i].edge.length = lengths[i]
    labels = labels or LABELS
    k = 0
    for i in range(n):
        if not nodes[i]._child_nodes:
            if leaf_taxa:
                lab = labels[k]
                t = tns.get_taxon(lab)
                if t is None:
                    t = tns.new_taxon(lab)
                nodes[i].taxon = t
            k += 1
        elif internal_labels is not None and internal_labels[i] is not None:
            nodes[i].label = internal_labels[i]
    tree.is_rooted = rooted
    return tree, nodes


# ------------------------------------------------------------------------------------------
# oracles


def reachable(tree):
    """Nodes reachable from the seed via raw _child_nodes (pre-order), with a cycle guard."""
    out = []
    seen = set()
    stack = [tree.seed_node]
    while stack:
        nd = stack.pop()
        if id(nd) in seen:
            raise Fail("wf:node-reached-twice", repr(nd))
        seen.add(id(nd))
        out.append(nd)
        if len(out) > 200:
            raise Fail("wf:too-many-nodes")
        for ch in reversed(nd._child_nodes):
            stack.append(ch)
    return out


def wellformed(tree):
    """Returns None if tree is a single arborescence, else a failure label."""
    seed = tree.seed_node
    if seed is None:
        return "wf:no-seed"
    if seed._parent_node is not None:
        return "wf:seed-has-parent"
    try:
        nodes = reachable(tree)
    except Fail as f:
        return f.label
    for nd in nodes:
        ids = [id(c) for c in nd._child_nodes]
        if len(set(ids)) != len(ids):
            return "wf:duplicate-child"
        for ch in nd._child_nodes:
            if ch._parent_node is not nd:
                return "wf:child-parent-mismatch"
        e = nd._edge
        if e is None:
            return "wf:node-without-edge"
        if e._head_node is not nd:
            return "wf:edge-head-mismatch"
        if e.tail_node is not nd._parent_node:
            return "wf:edge-tail-mismatch"
        if nd is not seed:
            p = nd._parent_node
            if p is None:
                return "wf:nonseed-without-parent"
            if sum(1 for c in p._child_nodes if c is nd) != 1:
                return "wf:not-once-in-parent"
    edges = [id(nd._edge) for nd in nodes]
    if len(set(edges)) != len(edges):
        return "wf:shared-edge"
    return None


def check_iterators(tree):
    """Every traversal visits exactly the reachable set."""
    nodes = reachable(tree)
    ref = sorted(id(n) for n in nodes)
    for name in ("preorder_node_iter", "postorder_node_iter", "levelorder_node_iter"):
        got = sorted(id(n) for n in getattr(tree, name)())
        if got != ref:
            return "wf:iter-mismatch:" + name
    leaves = sorted(id(n) for n in nodes if not n._child_nodes)
    if sorted(id(n) for n in tree.leaf_node_iter()) != leaves:
        return "wf:iter-mismatch:leaf_node_iter"
    return None


def leaf_label(nd):
    return nd.taxon.label if nd.taxon is not None else None


def leafset(nd):
    """frozenset of leaf taxon labels below nd (raw links)."""
    out = []
    stack = [nd]
    while stack:
        x = stack.pop()
        if not x._child_nodes:
            out.append(leaf_label(x))
        else:
            stack.extend(x._child_nodes)
    return frozenset(out)


def leaf_labels(tree):
    return sorted(str(leaf_label(n)) for n in reachable(tree) if not n._child_nodes)


def clades(tree):
    """set of leaf-label frozensets, one per node (rooted topology; unifurcations collapse)."""
    return set(leafset(nd) for nd in reachable(tree))


def unrooted_splits(tree):
    """set of unordered bipartitions {X, L\\X} as frozenset of two frozensets (non-empty sides)."""
    all_ = leafset(tree.seed_node)
    out = set()
    for nd in reachable(tree):
        x = leafset(nd)
        y = all_ - x
        if x and y:
            out.add(frozenset((x, y)))
    return out


def root_distance(nd):
    d = 0
    while nd._parent_node is not None:
        if nd._edge.length is not None:
            d = d + nd._edge.length
        nd = nd._parent_node
    return d


def ancestors(nd):
    out = [nd]
    while nd._parent_node is not None:
        nd = nd._parent_node
        out.append(nd)
    return out


def path_info(a, b):
    """(sum of lengths, number of edges, mrca) on the path between nodes a and b."""
    anc_a = ancestors(a)
    anc_b = ancestors(b)
    ids_b = {}
    for i, x in enumerate(anc_b):
        ids_b[id(x)] = i
    for i, x in enumerate(anc_a):
        if id(x) in ids_b:
            j = ids_b[id(x)]
            d = 0
            for y in anc_a[:i]:
                if y._edge.length is not None:
                    d = d + y._edge.length
            for y in anc_b[:j]:
                if y._edge.length is not None:
                    d = d + y._edge.length
            return d, i + j, x
    raise Fail("oracle:no-common-ancestor")


def pair_distances(tree):
    """dict (labelA, labelB) -> path length between leaves, labelA < labelB."""
    leaves = [n for n in reachable(tree) if not n._child_nodes]
    out = {}
    for i in range(len(leaves)):
        for j in range(i + 1, len(leaves)):
            a, b = leaves[i], leaves[j]
            la, lb = leaf_label(a), leaf_label(b)
            d = path_info(a, b)[0]
            if la < lb:
                out[(la, lb)] = d
            else:
                out[(lb, la)] = d
    return out


def total_length(tree, include_seed=True):
    t = 0
    for nd in reachable(tree):
        if nd._parent_node is None and not include_seed:
            continue
        if nd._edge.length is not None:
            t = t + nd._edge.length
    return t


def snapshot(tree):
    """Nested raw-link snapshot: (label, length, [children...]) in child order."""
    def rec(nd, depth=0):
        if depth > 60:
            raise Fail("wf:too-deep")
        return (leaf_label(nd), nd.label, nd._edge.length, [rec(c, depth + 1) for c in nd._child_nodes])
    return rec(tree.seed_node)


def same_dict(d1, d2):
    """Equality of two dicts with (possibly symbolic) numeric values, forks per entry."""
    if sorted(d1.keys()) != sorted(d2.keys()):
        return False
    for k in d1:
        if d1[k] != d2[k]:
            return False
    return True


# all parent vectors (concrete enumeration, used for shards and for self-checks)
def all_parent_vectors(n_nodes):
    out = [[]]
    for i in range(1, n_nodes):
        out = [v + [p] for v in out for p in range(i)]
    return out


# ------------------------------------------------------------------------------------------
# bipartition oracle (first principles: OR of the taxon bits below an edge)


def lowest_bit(x):
    b = 1
    while b <= x:
        if x & b:
            return b
        b <<= 1
    return 0


def leafset_mask(nd, tns):
    m = 0
    stack = [nd]
    while stack:
        x = stack.pop()
        if not x._child_nodes:
            if x.taxon is not None:
                m |= tns.taxon_bitmask(x.taxon)
        else:
            stack.extend(x._child_nodes)
    return m


def expected_split(leafset, tree_leafset, rooted):
    if rooted:
        return leafset
    lb = lowest_bit(tree_leafset)
    if leafset & lb:
        return (~leafset) & tree_leafset
    return leafset


def check_encoding_current(tree):
    """The tree's edges and tree.bipartition_encoding carry exactly what a fresh encoding of the
    present structure would produce.  Returns None or a failure label."""
    tns = tree.taxon_namespace
    nodes = reachable(tree)
    full = leafset_mask(tree.seed_node, tns)
    rooted = True if tree.is_rooted else False
    enc = tree.bipartition_encoding
    if enc is None:
        return "enc:encoding-list-missing"
    bip_ids = []
    for nd in nodes:
        b = nd._edge._bipartition
        if b is None:
            return "enc:edge-without-bipartition"
        ls = leafset_mask(nd, tns)
        if b._leafset_bitmask != ls:
            return "enc:stale-leafset-bitmask"
        if b._split_bitmask != expected_split(ls, full, rooted):
            return "enc:stale-split-bitmask"
        bip_ids.append(id(b))
    enc_ids = [id(b) for b in enc]
    if len(set(enc_ids)) != len(enc_ids):
        return "enc:duplicate-in-encoding-list"
    if sorted(enc_ids) != sorted(bip_ids):
        return "enc:encoding-list-differs-from-edges"
    return None


def reachable_from(nd):
    out = [nd]
    for c in nd._child_nodes:
        out.extend(reachable_from(c))
    return out


def canonical_form(parents):
    """nested sorted tuple identifying the unordered rooted shape"""
    n = len(parents) + 1
    ch = [[] for _ in range(n)]
    for i, p in enumerate(parents):
        ch[p].append(i + 1)

    def rec(i):
        return tuple(sorted(rec(c) for c in ch[i]))
    return rec(0)


def ordered_form(parents):
    """nested tuple identifying the ordered rooted shape (children left to right), whatever the node numbering"""
    n = len(parents) + 1
    ch = [[] for _ in range(n)]
    for i, p in enumerate(parents):
        ch[p].append(i + 1)

    def rec(i):
        return tuple(rec(c) for c in ch[i])
    return rec(0)


def ordered_representatives(vectors):
    """one parent vector per ordered shape (Catalan many), first one in enumeration order"""
    seen = set()
    out = []
    for v in vectors:
        c = ordered_form(v)
        if c not in seen:
            seen.add(c)
            out.append(v)
    return out


def unordered_representatives(vectors):
    seen = set()
    out = []
    for v in vectors:
        c = canonical_form(v)
        if c not in seen:
            seen.add(c)
            out.append(v)
    return out
