#!/bin/sh
# Offline build of the checking environment: an overlay venv on /venv with crosshair-tool + z3.
set -e
cd "$(dirname "$0")"
if [ -x .venv/bin/python ] && .venv/bin/python -c "import crosshair, z3, dendropy" 2>/dev/null; then
    exit 0
fi
rm -rf .venv
/venv/bin/python -m venv .venv
SP=$(.venv/bin/python -c "import sysconfig; print(sysconfig.get_paths()['purelib'])")
printf "import site; site.addsitedir('/venv/lib/python3.12/site-packages')\n" > "$SP/verif_overlay.pth"
PIP_NO_INDEX=1 .venv/bin/pip install -q --no-index --find-links /opt/veriftools/wheels crosshair-tool z3-solver
.venv/bin/python -c "import crosshair, z3, dendropy; print('setup ok', crosshair.__version__, z3.get_version_string())"
