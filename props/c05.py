"""C05 - split frequencies, consensus trees and support annotations are exact."""
import math

import dendropy
from dendropy.utility import constants

from vlib.driver import Harness, assume, choose, Fail, with_signature
from vlib import treegen as tg

TAXA = ["A", "B", "C", "D"]
POOL = ["((A,B),(C,D))", "((A,C),(B,D))", "(((A,B),C),D)", "(((A,C),B),D)", "(A,B,C,D)", "((A,B),C,D)", "(((C,D),A),B)", "((A,D),(B,C))"]
# the same pool as parent vectors + leaf labels (trees are built directly, not parsed)
SHAPES = {
    "((A,B),(C,D))": ([0, 0, 1, 1, 2, 2], ["A", "B", "C", "D"]),
    "((A,C),(B,D))": ([0, 0, 1, 1, 2, 2], ["A", "C", "B", "D"]),
    "((A,D),(B,C))": ([0, 0, 1, 1, 2, 2], ["A", "D", "B", "C"]),
    "(((A,B),C),D)": ([0, 0, 1, 1, 3, 3], None),
    "(((A,C),B),D)": ([0, 0, 1, 1, 3, 3], None),
    "(((C,D),A),B)": ([0, 0, 1, 1, 3, 3], None),
    "(A,B,C,D)": ([0, 0, 0, 0], ["A", "B", "C", "D"]),
    "((A,B),C,D)": ([0, 0, 0, 1, 1], ["C", "D", "A", "B"]),
}
THRESHOLDS = [constants.GREATER_THAN_HALF, 0.67, 1.0, 0.5, 0.34, 0.2]

K = 4
SPEC = ([("t%d" % i, int) for i in range(K)] + [("w%d" % i, int) for i in range(K)] + [("wn%d" % i, bool) for i in range(K)] + [("len%d_%d" % (i, j), int) for i in range(K) for j in range(7)] +
        [("rooted", bool), ("use_w", bool), ("th", int), ("target", int), ("pct", bool), ("aslabel", bool), ("hist", bool), ("metric", bool), ("lm", int),
         ("k", int), ("mode", str), ("npool", int)])


def make_tree(newick, tns, rooted, lengths=None):
    # caterpillars: ((( x, y ), z ), w): nodes 0 root,1 internal,2 leaf w,3 internal,4 leaf z,5 x,6 y
    parents, labels = SHAPES[newick]
    if labels is None:
        inner = newick.replace("(", "").replace(")", "").split(",")      # x, y, z, w
        labels = [inner[3], inner[2], inner[0], inner[1]]
    tree, nodes = tg.build(parents, lengths, rooted=rooted, tns=tns, labels=labels)
    return tree, nodes


def splits_of(tree, rooted):
    """non-trivial groupings of the tree as label sets (rooted: clades; unrooted: bipartitions)"""
    allset = frozenset(TAXA)
    out = set()
    for nd in tg.reachable(tree):
        x = tg.leafset(nd)
        if rooted:
            if 1 < len(x) < len(allset):
                out.add(x)
        else:
            y = allset - x
            if len(x) > 1 and len(y) > 1:
                out.add(frozenset((x, y)))
    return out


def mask_of(tns, labels):
    m = 0
    for l in labels:
        m |= tns.taxon_bitmask(tns.get_taxon(l))
    return m


def split_mask(tns, s, rooted):
    if rooted:
        return mask_of(tns, s)
    a, b = tuple(s)
    ma = mask_of(tns, a)
    return mask_of(tns, b) if ma & 1 else ma


def build_inputs(kw, lengths_mode=0):
    k = kw["k"]
    rooted = True if kw["rooted"] else False
    tns = dendropy.TaxonNamespace(TAXA)
    use_w = True if kw["use_w"] else False
    trees, weights, nodes_all = [], [], []
    for i in range(k):
        nw = POOL[choose(kw["t%d" % i], kw["npool"])]
        lengths = None
        if lengths_mode:
            n = len(SHAPES[nw][0]) + 1
            if lengths_mode == 1:       # symbolic ints
                lengths = [None]
                for j in range(1, n):
                    l = kw["len%d_%d" % (i, j)]
                    assume((l >= 0) & (l <= 1000))
                    lengths.append(l)
            else:                       # concrete per path: a fixed pattern scaled by a symbolic choice
                sc = [1, 2, 4.5][choose(kw["len%d_1" % i], 3)]
                lengths = [None] + [sc * (1 + (j % 3)) for j in range(1, n)]
        t, nodes = make_tree(nw, tns, rooted, lengths)
        w = 1
        if use_w and not kw["wn%d" % i]:      # (a tree without an explicit weight counts as 1 among weighted ones)
            w = kw["w%d" % i]
            assume((w >= 1) & (w <= 50))
            t.weight = w
        trees.append(t)
        weights.append(w)
        nodes_all.append(nodes)
    return tns, trees, weights, rooted, use_w


def expected_counts(trees, weights, rooted):
    cnt = {}
    for t, w in zip(trees, weights):
        for s in splits_of(t, rooted):
            cnt[s] = cnt.get(s, 0) + w
    tot = 0
    for w in weights:
        tot = tot + w
    return cnt, tot


def close(a, b, scale=1):
    return abs(a - b) <= 1e-9 * (1 + scale)


def compatible(s1, s2, rooted):
    if rooted:
        return (not (s1 & s2)) or s1 <= s2 or s2 <= s1
    (a, b), (c, d) = tuple(s1), tuple(s2)
    return (not (a & c)) or (not (a & d)) or (not (b & c)) or (not (b & d))


@with_signature(SPEC)
def c05_freqs(kw):
    tns, trees, weights, rooted, use_w = build_inputs(kw)
    tl = dendropy.TreeList(trees, taxon_namespace=tns)
    sd = tl.split_distribution(is_bipartitions_updated=False, use_tree_weights=use_w)
    cnt, tot = expected_counts(trees, weights, rooted)
    for s in cnt:
        got = sd[split_mask(tns, s, rooted)]
        if not close(got * tot, cnt[s], tot):
            return "split-frequency-wrong"
    # nothing for groupings that occur in no tree
    allg = set()
    for nw in POOL:
        t, _ = make_tree(nw, dendropy.TaxonNamespace(TAXA), rooted)
        allg |= splits_of(t, rooted)
    for s in allg:
        if s not in cnt:
            m = split_mask(tns, s, rooted)
            if sd[m] != 0 or m in sd.split_counts:
                return "frequency-reported-for-absent-split"
    if sd.total_trees_counted != len(trees):
        return "total-trees-counted-wrong"
    return True


@with_signature(SPEC)
def c05_consensus(kw):
    tns, trees, weights, rooted, use_w = build_inputs(kw)
    ta = dendropy.TreeArray(taxon_namespace=tns, is_rooted_trees=rooted, ignore_edge_lengths=True, use_tree_weights=use_w)
    ta.add_trees(trees)
    th = THRESHOLDS[choose(kw["th"], len(THRESHOLDS))]
    con = ta.consensus_tree(min_freq=th, summarize_splits=False)
    wf = tg.wellformed(con)
    if wf is not None:
        return wf
    if tg.leaf_labels(con) != sorted(TAXA):
        return "consensus-does-not-span-each-taxon-once"
    if (con.is_rooted is True) != rooted:
        return "consensus-rooting-differs-from-inputs"
    cnt, tot = expected_counts(trees, weights, rooted)
    got = splits_of(con, rooted)
    freq_ge = {}
    for s in cnt:
        freq_ge[s] = True if cnt[s] >= th * tot else False     # forks on the same comparison the code makes
    for s in got:
        if s not in cnt or not freq_ge[s]:
            return "consensus-contains-split-below-threshold"
    if th > 0.5:
        for s in cnt:
            if freq_ge[s] and s not in got:
                return "consensus-misses-split-reaching-threshold"
    else:
        for a in got:
            for b in got:
                if not compatible(a, b, rooted):
                    return "consensus-splits-incompatible"
        cands = [s for s in cnt if freq_ge[s]]
        # maximal: every left-out candidate conflicts with a chosen split of strictly higher or equal frequency
        for s in cands:
            if s in got:
                continue
            blocked = False
            for g in got:
                if not compatible(s, g, rooted) and cnt[g] >= cnt[s]:
                    blocked = True
            if not blocked:
                return "consensus-not-maximal-or-not-in-frequency-order"
    return True


@with_signature(SPEC)
def c05_support(kw):
    """support values and edge-length summaries on a summarised target tree (concrete lengths:
    the summaries call sqrt); optionally after the collection has grown (history)"""
    tns, trees, weights, rooted, use_w = build_inputs(kw, lengths_mode=2)
    k = len(trees)
    first = k - 1 if (kw["hist"] and k > 1) else k
    ta = dendropy.TreeArray(taxon_namespace=tns, is_rooted_trees=rooted, use_tree_weights=use_w)
    ta.add_trees(trees[:first])
    target_nw = POOL[choose(kw["target"], kw["npool"])]
    pct = True if kw["pct"] else False
    aslabel = pct       # the two presentation options are switched together
    opts = dict(support_as_percentages=pct, set_support_as_node_label=True if aslabel else None)
    if first < k:
        # summarise once, let the collection grow, summarise again
        t0, _ = make_tree(target_nw, tns, rooted)
        ta.summarize_splits_on_tree(t0, **opts)
        ta.consensus_tree(min_freq=0.5)
        ta.add_trees(trees[first:])
    target, tnodes = make_tree(target_nw, tns, rooted)
    ta.summarize_splits_on_tree(target, **opts)
    cnt, tot = expected_counts(trees, weights, rooted)
    lens = {}
    for t in trees:
        allset = frozenset(TAXA)
        for nd in tg.reachable(t):
            x = tg.leafset(nd)
            key = x if rooted else frozenset((x, allset - x))
            if nd._edge.length is not None:
                lens.setdefault(key, []).append(nd._edge.length)
    allset = frozenset(TAXA)
    for nd in tg.reachable(target):
        x = tg.leafset(nd)
        nontrivial = 1 < len(x) < len(allset) if rooted else (len(x) > 1 and len(allset - x) > 1)
        key = x if rooted else frozenset((x, allset - x))
        if nontrivial:
            exp = cnt.get(key, 0) / float(tot)
            if pct:
                exp = exp * 100
            if not close(nd.support, exp, 100):
                return "node-support-not-split-frequency"
            if aslabel and nd.label != "{:.4f}".format(nd.support):
                return "support-label-wrong"
        vals = sorted(lens.get(key, []))
        if vals and nd._parent_node is not None:
            e = nd.edge
            if not close(e.length_mean, sum(vals) / len(vals), 10):
                return "edge-length-mean-wrong"
            n = len(vals)
            med = vals[n // 2] if n % 2 else (vals[n // 2 - 1] + vals[n // 2]) / 2.0
            if not close(e.length_median, med, 10):
                return "edge-length-median-wrong"
            if not (close(e.length_range[0], vals[0], 10) and close(e.length_range[1], vals[-1], 10)):
                return "edge-length-range-wrong"
            if n > 1:
                m = sum(vals) / n
                sdv = math.sqrt(sum((v - m) ** 2 for v in vals) / (n - 1))
                if not close(e.length_sd, sdv, 10):
                    return "edge-length-sd-wrong"
    return True


@with_signature(SPEC)
def c05_ages(kw):
    """node-age summaries on a summarised target (rooted, exactly ultrametric inputs; ages concrete per path: the
    summaries call sqrt).  Input ages: node height in edges times a per-tree scale chosen symbolically."""
    k, npool = kw["k"], kw["npool"]
    tns = dendropy.TaxonNamespace(TAXA)
    trees = []
    for i in range(k):
        nw = POOL[choose(kw["t%d" % i], npool)]
        parents = SHAPES[nw][0]
        n = len(parents) + 1
        sc = [1, 2, 4.5][choose(kw["len%d_1" % i], 3)]
        height = [0] * n
        for j in range(n - 1, 0, -1):
            p = parents[j - 1]
            height[p] = max(height[p], height[j] + 1)
        lengths = [None] + [sc * (height[parents[j - 1]] - height[j]) for j in range(1, n)]
        t, _ = make_tree(nw, tns, True, lengths)
        trees.append(t)
    ta = dendropy.TreeArray(taxon_namespace=tns, is_rooted_trees=True, ignore_node_ages=False)
    ta.add_trees(trees)
    target, tnodes = make_tree(POOL[choose(kw["target"], npool)], tns, True)
    mode = [None, "mean-age", "median-age"][choose(kw["lm"], 3)]
    ta.summarize_splits_on_tree(target, set_edge_lengths=mode)
    wf = tg.wellformed(target)
    if wf is not None:
        return wf
    ages = {}
    for t in trees:
        nds = tg.reachable(t)
        depth = max(tg.root_distance(nd) for nd in nds if not nd._child_nodes)
        for nd in nds:
            ages.setdefault(tg.leafset(nd), []).append(depth - tg.root_distance(nd))
    for nd in tg.reachable(target):
        vals = sorted(ages.get(tg.leafset(nd), []))
        if not vals:
            continue
        n = len(vals)
        mean = sum(vals) / float(n)
        med = vals[n // 2] if n % 2 else (vals[n // 2 - 1] + vals[n // 2]) / 2.0
        if not close(nd.age_mean, mean, 10):
            return "node-age-mean-wrong"
        if not close(nd.age_median, med, 10):
            return "node-age-median-wrong"
        if not (close(nd.age_range[0], vals[0], 10) and close(nd.age_range[1], vals[-1], 10)):
            return "node-age-range-wrong"
        if n > 1:
            sdv = math.sqrt(sum((v - mean) ** 2 for v in vals) / (n - 1))
            if not close(nd.age_sd, sdv, 10):
                return "node-age-sd-wrong"
        if mode is not None:
            exp = mean if mode == "mean-age" else med
            if not close(nd.age, exp, 10):
                return "node-age-not-set-to-summary"
            par = nd._parent_node
            if par is not None and par.age >= nd.age and not close(nd._edge.length, par.age - nd.age, 10):
                return "edge-length-not-age-difference"
    return True


@with_signature(SPEC)
def c05_collapse(kw):
    tns, trees, weights, rooted, use_w = build_inputs(kw)
    tl = dendropy.TreeList(trees, taxon_namespace=tns)
    sd = tl.split_distribution(use_tree_weights=use_w)
    target_nw = POOL[choose(kw["target"], kw["npool"])]
    n = len(SHAPES[target_nw][0]) + 1
    lengths = [None]
    for j in range(1, n):
        l = kw["len0_%d" % j]
        assume((l >= 0) & (l <= 1000))
        lengths.append(l)
    target, tnodes = make_tree(target_nw, tns, rooted, lengths)
    before_splits = splits_of(target, rooted)
    leaves = [nd for nd in tnodes if not nd._child_nodes]
    rd = dict((tg.leaf_label(nd), tg.root_distance(nd)) for nd in leaves)
    pd = tg.pair_distances(target)
    th = THRESHOLDS[choose(kw["th"], len(THRESHOLDS))]
    sd.collapse_edges_with_less_than_minimum_support(target, min_freq=th)
    wf = tg.wellformed(target)
    if wf is not None:
        return wf
    cnt, tot = expected_counts(trees, weights, rooted)
    exp = set(s for s in before_splits if cnt.get(s, 0) >= th * tot)
    if rooted and splits_of(target, rooted) != exp:
        return "collapse-did-not-remove-exactly-the-weak-internal-edges"
    if not rooted and not (splits_of(target, rooted) <= before_splits):
        return "collapse-created-a-split"
    if rooted:
        # one comparison for all leaves (a sum of absolute differences is a fork-free term)
        dev = 0
        for nd in tg.reachable(target):
            if not nd._child_nodes:
                dev = dev + abs(tg.root_distance(nd) - rd[tg.leaf_label(nd)])
        if dev != 0:
            return "collapse-changed-a-root-to-tip-distance"
    # (unrooted targets: the seed position is arbitrary and the basal bifurcation is merged on
    # encoding, so "root-to-tip" has no fixed meaning there; only the topology claim is checked)
    return True


@with_signature(SPEC)
def c05_mcct(kw):
    """maximum credibility trees: topology of an input attaining the maximum of the reported scores"""
    tns, trees, weights, rooted, use_w = build_inputs(kw)
    ta = dendropy.TreeArray(taxon_namespace=tns, is_rooted_trees=rooted, ignore_edge_lengths=True, use_tree_weights=use_w)
    ta.add_trees(trees)
    cnt, tot = expected_counts(trees, weights, rooted)
    product = True if kw["metric"] else False
    if product:
        scores, idx = ta.calculate_log_product_of_split_supports()
        best = ta.maximum_product_of_split_support_tree(summarize_splits=False)
    else:
        scores, idx = ta.calculate_sum_of_split_supports()
        best = ta.maximum_sum_of_split_support_tree(summarize_splits=False)
    if len(scores) != len(trees):
        return "one-score-per-tree-expected"
    # equal topologies must get equal scores (the score is a function of the split set)
    for i in range(len(trees)):
        for j in range(i + 1, len(trees)):
            if splits_of(trees[i], rooted) == splits_of(trees[j], rooted) and not close(scores[i], scores[j], 10):
                return "equal-topologies-scored-differently"
    m = max(scores)
    if not close(scores[idx], m, 10):
        return "reported-index-does-not-attain-the-maximum"
    tops = [splits_of(t, rooted) for i, t in enumerate(trees) if close(scores[i], m, 10)]
    if splits_of(best, rooted) not in tops:
        return "maximum-credibility-tree-is-not-a-maximiser"
    return True


def classify(inp):
    return inp.get("mode", "")


BUDGET = dict(quick=300, thorough=900)


def harnesses(tier):
    q = tier == "quick"
    ks = (1, 2, 3)      # (thorough: the whole pool of topologies and weighted trees also at k = 3; four trees did not exhaust a single shard in 1000 s)
    common = dict(assumptions=["input trees span exactly the four taxa of the namespace", "weights are symbolic integers in [1,50] (c05_support/c05_mcct: concrete per path - sqrt/log are C functions)"],
                  outside=["HPD and quantile summaries", "float rounding (tolerance 1e-9)", "more than 4 taxa"], classify=classify)

    npool = 6 if q else len(POOL)

    def sh(mode, split=False, ks_=ks):
        out = []
        for k in ks_:
            if split and k >= 3:
                for t0 in range(npool):
                    for t1 in range(npool):
                        d = dict(k=k, mode=mode, t0=t0, t1=t1, npool=npool)
                        if q:
                            d["use_w"] = False      # three weighted trees: thorough tier
                        out.append(d)
            elif split and k == 2:
                for t0 in range(npool):
                    out.append(dict(k=k, mode=mode, t0=t0, npool=npool))
            else:
                out.append(dict(k=k, mode=mode, npool=npool))
        return out
    B = dict(trees="1..%d trees, each a symbolic choice from %d labelled topologies on 4 taxa (binary, partly resolved, star)" % (max(ks), npool),
             rooting="rooted / unrooted (symbolic, same for all)", weights="use_tree_weights symbolic; each tree either without a weight or with a symbolic int weight in [1,50]")
    hs = [Harness("c05_freqs", "C05", c05_freqs, sh("freqs", True), bounds=B,
                  functions=["TreeList.split_distribution", "SplitDistribution.count_splits_on_tree/calc_freqs/__getitem__"], cost=2.0, **common),
          Harness("c05_consensus", "C05", c05_consensus, sh("consensus", True), bounds=dict(B, threshold="symbolic choice from %r" % THRESHOLDS),
                  functions=["TreeArray.consensus_tree", "SplitDistribution.consensus_tree", "Tree.from_split_bitmasks", "TreeArray.add_trees"], cost=6.0, path_timeout=15.0, **common),
          Harness("c05_collapse", "C05", c05_collapse, [dict(x, target=tg_) for x in (sh("collapse", True, ks_=(1, 2)) + ([] if q else [dict(k=3, mode="collapse", npool=npool, t0=t0) for t0 in range(npool)])) for tg_ in range(npool)],
                  bounds=dict(B, target="symbolic choice of target tree with symbolic int edge lengths", threshold="as c05_consensus"),
                  functions=["SplitDistribution.collapse_edges_with_less_than_minimum_support", "Edge.collapse"], cost=2.0, path_timeout=15.0, **common)]
    hs.append(Harness("c05_support", "C05", c05_support, [dict(k=k, mode="support", use_w=False, npool=npool, target=tg_, t0=t0) for k in ((1, 2) if q else (1, 2, 3)) for tg_ in range(npool) for t0 in range(npool)],
                      bounds=dict(trees="1..%d trees, edge lengths a fixed pattern scaled by a symbolic choice of 1/2/4.5 per tree; weights 1" % (2 if q else 3), target="symbolic choice of target tree", options="percentages, support as label, history (summarise, grow, summarise)"),
                      functions=["TreeArray.summarize_splits_on_tree", "SplitDistributionSummarizer.summarize_splits_on_tree", "SplitDistribution.calc_split_edge_length_summaries", "statistics.summarize"],
                      cost=3.0, **common))
    hs.append(Harness("c05_ages", "C05", c05_ages, [dict(k=k, mode="ages", npool=npool, target=tg_, t0=t0) for k in ((1, 2) if q else (1, 2, 3)) for tg_ in range(npool) for t0 in range(npool)],
                      bounds=dict(trees="1..%d rooted, exactly ultrametric trees: node age = height in edges x a per-tree scale chosen symbolically from 1/2/4.5" % (2 if q else 3), target="symbolic choice of target tree", options="set_edge_lengths None / mean-age / median-age (symbolic)"),
                      functions=["SplitDistribution.count_splits_on_tree (node ages)", "Tree.calc_node_ages", "SplitDistribution.calc_split_node_age_summaries", "SplitDistributionSummarizer.summarize_splits_on_tree", "Tree.set_edge_lengths_from_node_ages"],
                      cost=2.0, **dict(common, outside=["HPD and quantile summaries", "float rounding (tolerance 1e-9)", "more than 4 taxa", "node ages of non-ultrametric inputs"])))
    hs.append(Harness("c05_mcct", "C05", c05_mcct, [dict(k=k, mode="mcct", use_w=False, npool=npool, t0=t0) for k in ((2, 3) if q else (2, 3, 4)) for t0 in range(npool)],
                      bounds=dict(trees="2..%d trees, weights 1" % (3 if q else 4), metric="sum of support / log product (symbolic)"),
                      functions=["TreeArray.calculate_sum_of_split_supports", "calculate_log_product_of_split_supports", "maximum_sum_of_split_support_tree", "maximum_product_of_split_support_tree", "restore_tree"],
                      cost=2.0, **common))
    return hs
