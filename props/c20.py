"""C20 - readers terminate on every input and report bad data as a parse error."""
import re

import dendropy
from dendropy.utility import error as dperror

from vlib.driver import Harness, assume, choose, Fail, with_signature, top_repo_frame
from vlib import treegen as tg

# ------------------------------------------------------------------------------------------ corpus

NEWICK_DOCS = [
    "((a:1,b:2)x:3,'c d':4.5e-1)r:0;\n(a,(b,'c d'));",
    "[&R] ((a,b)[&k=1],c)[c1]:2;[&U](b,a,'c d');",
]
NEXUS_DOCS = [
    "#NEXUS\nBEGIN TAXA;\n DIMENSIONS NTAX=3;\n TAXLABELS a b c;\nEND;\nBEGIN CHARACTERS;\n DIMENSIONS NCHAR=4;\n"
    " FORMAT DATATYPE=DNA GAP=- MISSING=?;\n MATRIX\n a ACGT\n b A-GT\n c AC?T\n ;\nEND;\n"
    "BEGIN TREES;\n TRANSLATE 1 a, 2 b, 3 c;\n TREE t1 = [&R] ((1:1,2:2):1,3:3);\nEND;\n",
    "#NEXUS\nBEGIN DATA;\n DIMENSIONS NTAX=2 NCHAR=4;\n FORMAT DATATYPE=STANDARD SYMBOLS=\"01\" INTERLEAVE;\n MATRIX\n"
    " a 01\n b 10\n a 1?\n b 0-\n ;\nEND;\nBEGIN SETS;\n CHARSET s1 = 1-2;\nEND;\n",
    "#NEXUS\nBEGIN TAXA;\n TITLE t1;\n DIMENSIONS NTAX=2;\n TAXLABELS a b;\nEND;\nBEGIN TAXA;\n TITLE t2;\n DIMENSIONS NTAX=2;\n"
    " TAXLABELS c d;\nEND;\nBEGIN TREES;\n LINK TAXA = t2;\n TREE x = (c,d);\nEND;\nBEGIN TREES;\n LINK TAXA = t1;\n TREE y = (a,b);\nEND;\n",
]
PHYLIP_DOCS = [
    ("2 4\na         ACGT\nb         A-GT\n", dict(strict=True)),
    ("2 4\na  AC\nb  A-\n\nGT\nGT\n", dict(interleaved=True)),
    ("3 2\na AC\nb AG\nc A?\n", dict()),
]
FASTA_DOCS = [">a\nACGT\n>b x\nAC\nGT\n\n>c\nA-?N\n"]

TOKEN_ALPHABET = "(),:;'[]&=ab1. _#\n"


# ------------------------------------------------------------------------------------------ streams


class EditStream:
    """Text stream over ``doc`` truncated after ``limit`` characters, with at most one edit at
    position ``p``: kind 0 none, 1 replace by ``c``, 2 delete, 3 insert ``c`` before.  ``limit``,
    ``p`` and ``c`` may be symbolic: every read compares the current position with them."""

    def __init__(self, doc, limit, kind=0, p=0, c=""):
        self.doc = doc
        self.limit = limit
        self.kind = kind
        self.p = p
        self.c = c
        self.pos = 0
        self.eof_reads = 0
        self.seen = []

    def _char_at(self, i):
        n = len(self.doc)
        if self.kind == 0:
            return self.doc[i] if i < n else ""
        if i < self.p:
            return self.doc[i] if i < n else ""
        if self.kind == 1:
            if i == self.p:
                return self.c
            return self.doc[i] if i < n else ""
        if self.kind == 2:
            return self.doc[i + 1] if i + 1 < n else ""
        if i == self.p:
            return self.c
        return self.doc[i - 1] if i - 1 < n else ""

    def read(self, n=-1):
        if n is None or n < 0:
            out = []
            while True:
                ch = self.read(1)
                if ch == "":
                    break
                out.append(ch)
            return "".join(out)
        out = ""
        for _ in range(n):
            if self.pos >= self.limit:
                ch = ""
            else:
                ch = self._char_at(self.pos)
            if ch == "":
                self.eof_reads += 1
                if self.eof_reads > 500:
                    raise Fail("hang", "reader keeps reading at end of stream")
                break
            self.pos += 1
            self.seen.append(ch)
            out = out + ch
        return out

    def readline(self):
        out = ""
        while True:
            ch = self.read(1)
            if ch == "":
                break
            out = out + ch
            if ch == "\n":
                break
        return out

    def readlines(self):
        out = []
        while True:
            ln = self.readline()
            if ln == "":
                break
            out.append(ln)
        return out

    def __iter__(self):
        return self

    def __next__(self):
        ln = self.readline()
        if ln == "":
            raise StopIteration
        return ln

    def close(self):
        pass


class StrStream(EditStream):
    """stream over a (symbolic) string"""

    def __init__(self, text):
        EditStream.__init__(self, text, len(text))


# ------------------------------------------------------------------------------------------ oracle

INTERNAL = (AttributeError, IndexError, TypeError, KeyError, RecursionError, AssertionError, NameError,
            UnboundLocalError, ZeroDivisionError)


def outcome(fn):
    """Runs a reader.  Returns (kind, payload): kind in ok / parse-error / empty-source or raises
    Fail for an internal error raised from inside the library."""
    try:
        return "ok", fn()
    except dperror.DataParseError:
        return "parse-error", None
    except ValueError as e:
        where = top_repo_frame(e)
        # the documented error for a source without data
        return "value-error", (where, str(e)[:80])
    except INTERNAL as e:
        where = top_repo_frame(e)
        if where is None:
            raise
        raise Fail("internal-error:" + type(e).__name__, where)
    except StopIteration as e:
        raise Fail("internal-error:StopIteration", top_repo_frame(e))
    except Exception as e:   # noqa
        if type(e).__name__ in ("BlockTerminatedException",):
            raise Fail("internal-error:" + type(e).__name__, top_repo_frame(e))
        raise


def check_trees(trees):
    for t in trees:
        wf = tg.wellformed(t)
        if wf is not None:
            return "structurally-invalid-tree:" + wf
    return None


def declared_dims(text):
    """NTAX / NCHAR as declared in the text the reader saw (last declaration wins), or None"""
    ntax = re.findall(r"NTAX\s*=\s*(\d+)\s*[;\s]", text, re.I)
    nchar = re.findall(r"NCHAR\s*=\s*(\d+)\s*[;\s]", text, re.I)
    return (int(ntax[-1]) if ntax else None, int(nchar[-1]) if nchar else None)


def check_dataset(ds, seen_text, check_dims=True):
    for tl in ds.tree_lists:
        r = check_trees(tl)
        if r is not None:
            return r
    if check_dims and len(ds.char_matrices) == 1 and len(re.findall(r"DIMENSIONS", seen_text, re.I)) <= 2:
        ntax, nchar = declared_dims(seen_text)
        m = ds.char_matrices[0]
        if ntax is not None and len(m) != ntax:
            return "matrix-rows-contradict-declared-ntax"
        if nchar is not None:
            for t in m:
                if len(m[t]) != nchar:
                    return "matrix-columns-contradict-declared-nchar"
    return None


SPEC = [("k", int), ("kind", int), ("p", int), ("c", str), ("ci", int), ("s", str), ("doc", int), ("fmt", str), ("lo", int), ("hi", int), ("L", int),
        ("family", str), ("route", int)]


def run_reader(fmt, stream, opts=None, route=0):
    if route == 1:
        # the one-tree-at-a-time iterator has its own driver loop around the same block parsers
        return list(dendropy.Tree.yield_from_files([stream], schema=fmt))
    if route == 2:
        return dendropy.TreeList.get(file=stream, schema=fmt)
    if fmt == "newick":
        return dendropy.TreeList.get(file=stream, schema="newick")
    if fmt == "nexus":
        return dendropy.DataSet.get(file=stream, schema="nexus")
    if fmt == "phylip":
        return dendropy.DnaCharacterMatrix.get(file=stream, schema="phylip", **(opts or {}))
    if fmt == "fasta":
        return dendropy.DnaCharacterMatrix.get(file=stream, schema="fasta")
    raise Fail("harness:fmt")


def judge(fmt, kind, res, stream, doc_index, check_dims=True, route=0):
    if kind == "value-error":
        # documented ValueError: only for a source that holds no data at all
        seen = "".join(stream.seen).strip()
        if seen == "" or fmt in ("phylip",):
            return True
        return "undocumented-value-error@%s" % (res[0],)
    if kind != "ok":
        return True
    if fmt == "newick" or route in (1, 2):
        r = check_trees(res)
    elif fmt == "nexus":
        r = check_dataset(res, "".join(stream.seen), check_dims)
    else:
        r = None
        if fmt == "phylip":
            m = re.match(r"\s*(\d+)\s+(\d+)", "".join(stream.seen))
            if m:
                if len(res) != int(m.group(1)):
                    r = "matrix-rows-contradict-declared-ntax"
                else:
                    for t in res:
                        if len(res[t]) != int(m.group(2)):
                            r = "matrix-columns-contradict-declared-nchar"
    return True if r is None else r


def docs_for(fmt):
    return dict(newick=NEWICK_DOCS, nexus=NEXUS_DOCS, phylip=[d for d, _ in PHYLIP_DOCS], fasta=FASTA_DOCS)[fmt]


@with_signature(SPEC)
def c20_truncate(kw):
    """every prefix of a valid document (k symbolic within the shard's range)"""
    fmt, di = kw["fmt"], kw["doc"]
    doc = docs_for(fmt)[di]
    k = kw["k"]
    assume(k >= kw["lo"])
    assume(k < kw["hi"])
    opts = PHYLIP_DOCS[di][1] if fmt == "phylip" else None
    # decided once per path (the alternative - comparing the symbolic k with the position on
    # every read - walks the same |doc|+1 paths at one solver query per character read)
    k = kw["lo"] + choose(k - kw["lo"], kw["hi"] - kw["lo"])
    stream = EditStream(doc, k)
    route = kw["route"]
    kind, res = outcome(lambda: run_reader(fmt, stream, opts, route))
    return judge(fmt, kind, res, stream, di, route=route)


@with_signature(SPEC)
def c20_corrupt(kw):
    """one edit (replace / delete / insert one character of the token alphabet) at a symbolic position"""
    fmt, di = kw["fmt"], kw["doc"]
    doc = docs_for(fmt)[di]
    p = kw["p"]
    assume(p >= kw["lo"])
    assume(p < kw["hi"])
    kind_e = 1 + choose(kw["kind"], 3)
    opts = PHYLIP_DOCS[di][1] if fmt == "phylip" else None
    p = kw["lo"] + choose(p - kw["lo"], kw["hi"] - kw["lo"])
    if fmt in ("phylip", "fasta"):
        c = ">A- \n1"[choose(kw["ci"], 6)]
    else:
        # a symbolic choice of the character (a symbolic *string* here costs seconds per path in
        # the solver for a factor of two fewer paths - measured)
        c = TOKEN_ALPHABET[choose(kw["ci"], len(TOKEN_ALPHABET))]
    stream = EditStream(doc, len(doc) + 1, kind_e, p, c)
    route = kw["route"]
    kind, res = outcome(lambda: run_reader(fmt, stream, opts, route))
    # dimensions are compared only when the edit lies outside the DIMENSIONS statements
    safe = True
    for m in re.finditer(r"DIMENSIONS[^;]*;", doc):
        if not (kw["hi"] <= m.start() or kw["lo"] > m.end()):
            safe = False
    return judge(fmt, kind, res, stream, di, check_dims=safe, route=route)


@with_signature(SPEC)
def c20_arbitrary(kw):
    """arbitrary strings over the token alphabet (symbolic string)"""
    fmt = kw["fmt"]
    s = kw["s"]
    assume(len(s) <= kw["L"])
    for ch in s:
        assume(ch in TOKEN_ALPHABET)
    text = ("#NEXUS\nBEGIN TREES;\nTREE t=" + s) if fmt == "nexus" else s
    stream = StrStream(text)
    kind, res = outcome(lambda: run_reader(fmt, stream))
    return judge(fmt, kind, res, stream, 0, check_dims=False)


def classify(inp):
    fam = inp.get("family")
    fmt = inp.get("fmt")
    if fam == "truncate":
        doc = docs_for(fmt)[inp["doc"]]
        k = inp["k"]
        blocks = [m.start() for m in re.finditer(r"BEGIN", doc) if m.start() <= k]
        stmt = doc[:k].rsplit(";", 1)[-1].strip().split(" ")[0].split("\n")[0].upper() if fmt == "nexus" else ""
        return "%s:doc%d:cut-in-%s" % (fmt, inp["doc"], stmt or "-")
    if fam == "corrupt" and fmt == "nexus":
        doc = docs_for(fmt)[inp["doc"]]
        kind_e = 1 + inp["kind"]
        c = TOKEN_ALPHABET[inp["ci"]] if 0 <= inp["ci"] < len(TOKEN_ALPHABET) else "?"
        m = re.search(r"MATRIX(.*?);", doc, re.S)
        if m and kind_e in (1, 3) and c == ";" and m.start(1) <= inp["p"] <= m.end(1):
            return "nexus:stray-semicolon-inside-matrix-statement"
    return "%s:%s" % (fmt, fam)


BUDGET = dict(quick=240, thorough=900)


def harnesses(tier):
    q = tier == "quick"
    step = 12
    tr, co = [], []
    for fmt in ("newick", "nexus", "phylip", "fasta"):
        for di, doc in enumerate(docs_for(fmt)):
            for lo in range(0, len(doc) + 1, step):
                tr.append(dict(fmt=fmt, doc=di, lo=lo, hi=min(lo + step, len(doc) + 1), family="truncate", L=0, route=0))
            if fmt in ("newick", "nexus"):
                # the other drivers around the same parsers: Tree.yield_from_files (1) and, for NEXUS, TreeList.get (2)
                for route in ((1,) if fmt == "newick" else (1, 2)):
                    for lo in range(0, len(doc) + 1, step * 2):
                        tr.append(dict(fmt=fmt, doc=di, lo=lo, hi=min(lo + step * 2, len(doc) + 1), family="truncate", L=0, route=route))
            if q and (fmt == "nexus" and di > 0):
                if di == 1:
                    # quick tier: of the further NEXUS documents only the interleaved matrix body
                    a, b = doc.index("MATRIX") + 6, doc.index(";\nEND;\nBEGIN SETS")
                    for lo in range(a, b, 6):
                        co.append(dict(fmt=fmt, doc=di, lo=lo, hi=min(lo + 6, b + 1), family="corrupt", L=0, route=0))
                continue
            cstep = 6 if fmt in ("newick", "nexus") else 8
            for lo in range(0, len(doc), cstep):
                co.append(dict(fmt=fmt, doc=di, lo=lo, hi=min(lo + cstep, len(doc)), family="corrupt", L=0, route=0))
            if fmt in ("newick", "nexus") and "(" in doc:
                # the tree statements also through the one-tree-at-a-time iterator
                a = 0 if fmt == "newick" else doc.index("BEGIN TREES")
                for lo in range(a, len(doc), 12):
                    co.append(dict(fmt=fmt, doc=di, lo=lo, hi=min(lo + 12, len(doc)), family="corrupt", L=0, route=1))
    common = dict(assumptions=["streams: pure-Python read(1)/readline/iteration over the text, '' at end of stream",
                               "internal error = AttributeError/IndexError/TypeError/KeyError/RecursionError/AssertionError/NameError/"
                               "ZeroDivisionError/StopIteration/BlockTerminatedException whose innermost library frame is in dendropy"],
                  outside=["NeXML (C-level XML parser)", "inputs longer than the corpus documents", "encodings", "double edits (thorough: none yet)"],
                  classify=classify, path_timeout=3.0 if q else 8.0)
    hs = [Harness("c20_truncate", "C20", c20_truncate, tr,
                  bounds=dict(corpus="%d Newick, %d NEXUS (TAXA/CHARACTERS/DATA interleaved/SETS/TREES with TRANSLATE/multiple linked blocks), %d PHYLIP, %d FASTA documents"
                              % (len(NEWICK_DOCS), len(NEXUS_DOCS), len(PHYLIP_DOCS), len(FASTA_DOCS)),
                              cut="every truncation point 0..len(document), symbolic within shards of %d positions" % step,
                              routes="DataSet.get (NEXUS) / TreeList.get (Newick) / CharacterMatrix.get (PHYLIP, FASTA); Newick and NEXUS also through Tree.yield_from_files, NEXUS also through TreeList.get"),
                  functions=["Tokenizer.*", "NexusTokenizer.*", "NewickReader._parse_*", "NexusReader._parse_*", "PhylipReader._read/_parse_*", "FastaReader._read", "NexusTreeDataYielder._yield_items_from_stream", "NewickTreeDataYielder"],
                  cost=4.0, **common),
          Harness("c20_corrupt", "C20", c20_corrupt, co,
                  bounds=dict(corpus="as c20_truncate" + (" (first NEXUS document; of the second only the interleaved matrix body)" if q else ""),
                              edit="replace / delete / insert at a symbolic position; Newick/NEXUS: the character is a symbolic choice from %r; PHYLIP/FASTA: symbolic choice among '>A- \\n1'" % TOKEN_ALPHABET),
                  functions=["as c20_truncate"], cost=4.0, **common)]
    L = 2 if q else 3
    hs.append(Harness("c20_arbitrary", "C20", c20_arbitrary, [dict(fmt=f, family="arbitrary", L=L, doc=0, lo=0, hi=0) for f in ("newick", "nexus")],
                      bounds=dict(strings="every string of length <= %d over %r (symbolic string; NEXUS: as the body of a TREE statement)" % (L, TOKEN_ALPHABET)),
                      functions=["Tokenizer.*", "NewickReader._parse_*", "NexusReader._parse_trees_block"], cost=2.0, **dict(common, path_timeout=12.0)))
    return hs
