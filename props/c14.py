"""C14 - path distances and common ancestors are exact, and NJ/UPGMA invert them."""
import io
import warnings

import dendropy
from dendropy.calculate import treemeasure
from dendropy.calculate.phylogeneticdistance import PhylogeneticDistanceMatrix, NodeDistanceMatrix

from vlib.driver import Harness, assume, choose, Fail, with_signature
from vlib import treegen as tg

MAXN = 9
LMAX = 1000

SPEC = ([("l%d" % i, int) for i in range(1, MAXN)] + [("s%d" % i, bool) for i in range(6)] +
        [("lens_mode", int), ("lpos", int), ("t1", int), ("t2", int), ("fn", int), ("route", int), ("encstate", int),
         ("weighted", bool), ("rooted", bool), ("edit", int),
         ("shape", list)])


def smin(a, b):
    """min without a fork: (a + b - |a - b|) / 2 stays an ite term under symbolic execution"""
    return (a + b - abs(a - b)) / 2


def build(kw, positive=False):
    parents = list(kw["shape"])
    n = len(parents) + 1
    lens_mode = choose(kw["lens_mode"], 3)   # all ints / one missing / none
    lengths = [None] * n
    if lens_mode < 2:
        for i in range(1, n):
            l = kw["l%d" % i]
            assume(l >= (1 if positive else 0))
            assume(l <= LMAX)
            lengths[i] = l
        if lens_mode == 1:
            lengths[1 + choose(kw["lpos"], n - 1)] = None
    rooted = True if kw["rooted"] else False
    tree, nodes = tg.build(parents, lengths, rooted=rooted)
    return tree, nodes


def close(a, b, scale):
    return abs(a - b) <= 1e-9 * (1 + scale)


@with_signature(SPEC)
def c14_pdm(kw):
    tree, nodes = build(kw)
    leaves = [nd for nd in nodes if not nd._child_nodes]
    nl = len(leaves)
    fn = kw["fn"]
    weighted = True if kw["weighted"] else False
    pdm = PhylogeneticDistanceMatrix.from_tree(tree)
    if fn == 0:
        a = leaves[choose(kw["t1"], nl)]
        b = leaves[choose(kw["t2"], nl)]
        d, steps, anc = tg.path_info(a, b)
        if pdm.patristic_distance(a.taxon, b.taxon) != d:
            return "patristic-distance-wrong"
        if pdm.patristic_distance(b.taxon, a.taxon) != d or pdm(a.taxon, b.taxon) != d:
            return "patristic-distance-asymmetric"
        if pdm.path_edge_count(a.taxon, b.taxon) != steps or pdm.path_edge_count(b.taxon, a.taxon) != steps:
            return "path-edge-count-wrong"
        if pdm.mrca(a.taxon, b.taxon) is not anc or pdm.mrca(b.taxon, a.taxon) is not anc:
            return "pdm-mrca-wrong"
        if pdm.distance(a.taxon, b.taxon, is_weighted_edge_distances=False) != steps:
            return "distance-unweighted-wrong"
        if treemeasure.patristic_distance(tree, a.taxon, b.taxon) != d:
            return "treemeasure-patristic-distance-wrong"
        return True
    if fn == 1:
        # node distance matrix between any two nodes
        x = nodes[choose(kw["t1"], len(nodes))]
        y = nodes[choose(kw["t2"], len(nodes))]
        ndm = NodeDistanceMatrix.from_tree(tree)
        d, steps, anc = tg.path_info(x, y)
        if ndm.patristic_distance(x, y) != d or ndm.patristic_distance(y, x) != d:
            return "node-patristic-distance-wrong"
        if ndm.path_edge_count(x, y) != steps:
            return "node-path-edge-count-wrong"
        if ndm.mrca(x, y) is not anc:
            return "node-mrca-wrong"
        return True
    # summaries over an assemblage (symbolic subset of >= 2 taxa, or all)
    sel = [i for i in range(nl) if kw["s%d" % i]]
    assume(len(sel) >= 2)
    keep = set(id(leaves[i].taxon) for i in sel)
    flt = (lambda t: id(t) in keep) if len(sel) < nl else None
    pairs = []
    for i in range(len(sel)):
        for j in range(i + 1, len(sel)):
            info = tg.path_info(leaves[sel[i]], leaves[sel[j]])
            pairs.append(info[0] if weighted else info[1])
    total = 0
    for d in pairs:
        total = total + d
    if fn == 2:
        got = pdm.mean_pairwise_distance(filter_fn=flt, is_weighted_edge_distances=weighted)
        if not close(got * len(pairs), total, total):
            return "mean-pairwise-distance-wrong"
        if flt is None:
            if not close(pdm.sum_of_distances(is_weighted_edge_distances=weighted), total, total):
                return "sum-of-distances-wrong"
            ds = pdm.distances(is_weighted_edge_distances=weighted)
            if len(ds) != len(pairs):
                return "distances-wrong-number"
            s = 0
            for d in ds:
                s = s + d
            if not close(s, total, total):
                return "distances-wrong-values"
        return True
    if fn == 3:
        tot = 0
        for i in sel:
            m = None
            for j in sel:
                if i == j:
                    continue
                info = tg.path_info(leaves[i], leaves[j])
                d = info[0] if weighted else info[1]
                m = d if m is None else smin(m, d)
            tot = tot + m
        got = pdm.mean_nearest_taxon_distance(filter_fn=flt, is_weighted_edge_distances=weighted)
        if not close(got * len(sel), tot, tot):
            return "mean-nearest-taxon-distance-wrong"
        return True
    if fn == 4:
        t1, t2 = pdm.max_pairwise_distance_taxa(is_weighted_edge_distances=weighted)
        a = [x for x in leaves if x.taxon is t1][0]
        b = [x for x in leaves if x.taxon is t2][0]
        info = tg.path_info(a, b)
        best = info[0] if weighted else info[1]
        for i in range(nl):
            for j in range(i + 1, nl):
                info = tg.path_info(leaves[i], leaves[j])
                d = info[0] if weighted else info[1]
                if d > best:
                    return "max-pairwise-distance-taxa-not-maximal"
        return True
    raise Fail("harness:fn")


def deepest_covering(tree, labels):
    best = None
    for nd in tg.reachable(tree):   # pre-order: later = deeper along a chain
        if labels.issubset(tg.leafset(nd)):
            best = nd
    return best


@with_signature(SPEC)
def c14_mrca(kw):
    tree, nodes = tg.build(list(kw["shape"]), None, rooted=True)
    leaves = [nd for nd in nodes if not nd._child_nodes]
    nl = len(leaves)
    sel = [i for i in range(nl) if kw["s%d" % i]]
    assume(len(sel) >= 1)
    encstate = choose(kw["encstate"], 3)
    route = choose(kw["route"], 3)
    kwargs = {}
    if encstate == 1:
        tree.encode_bipartitions(suppress_unifurcations=False)
    elif encstate == 2:
        # stale: encode, edit the structure without updating, then ask for a refresh
        tree.encode_bipartitions(suppress_unifurcations=False)
        edit = choose(kw["edit"], 3)
        if edit == 0:
            a = leaves[choose(kw["t1"], nl)]
            b = leaves[choose(kw["t2"], nl)]
            a.taxon, b.taxon = b.taxon, a.taxon
        elif edit == 1:
            internal = [x for x in nodes if x._child_nodes]
            tree.reroot_at_node(internal[choose(kw["t1"], len(internal))], update_bipartitions=False,
                                suppress_unifurcations=False)
        else:
            x = nodes[choose(kw["t1"], len(nodes))]
            t = tree.taxon_namespace.new_taxon("Z")
            x.new_child(taxon=t)
            if x in leaves:
                x.taxon = None
        kwargs["is_bipartitions_updated"] = False
        # mrca's domain: every leaf carries a taxon (re-rooting a tree whose seed has one child, without suppressing
        # unifurcations, leaves the old seed behind as a taxon-less leaf)
        assume(all(nd.taxon is not None for nd in tg.reachable(tree) if not nd._child_nodes))
    taxa = [leaves[i].taxon for i in sel if leaves[i].taxon is not None]
    assume(len(taxa) >= 1)
    labels = frozenset(t.label for t in taxa)
    # the taxa may have moved: recompute from the current structure
    exp = deepest_covering(tree, labels)
    with warnings.catch_warnings():
        warnings.simplefilter("ignore")
        if route == 0:
            got = tree.mrca(taxa=taxa, **kwargs)
        elif route == 1:
            got = tree.mrca(taxon_labels=[t.label for t in taxa], **kwargs)
        else:
            got = tree.mrca(leafset_bitmask=tree.taxon_namespace.taxa_bitmask(taxa=taxa), **kwargs)
    if got is not exp:
        return "tree-mrca-not-deepest-covering-node"
    return True


@with_signature(SPEC)
def c14_nj(kw):
    """NJ on the distances of a binary unrooted tree with positive lengths gives the tree back"""
    parents = list(kw["shape"])
    n = len(parents) + 1
    lengths = [None]
    for i in range(1, n):
        l = kw["l%d" % i]
        assume(l >= 1)
        assume(l <= 100)
        lengths.append(l)
    tree, nodes = tg.build(parents, lengths, rooted=False)
    pdm = PhylogeneticDistanceMatrix.from_tree(tree)
    nj = pdm.nj_tree()
    wf = tg.wellformed(nj)
    if wf is not None:
        return wf
    if tg.leaf_labels(nj) != tg.leaf_labels(tree):
        return "nj-leaf-set-differs"
    if tg.unrooted_splits(nj) != tg.unrooted_splits(tree):
        return "nj-topology-differs"
    d0 = tg.pair_distances(tree)
    d1 = tg.pair_distances(nj)
    for k in d0:
        if not close(d1[k], d0[k], d0[k]):
            return "nj-path-lengths-differ"
    return True


@with_signature(SPEC)
def c14_upgma(kw):
    """UPGMA on the distances of an ultrametric tree gives the rooted tree back"""
    parents = list(kw["shape"])
    n = len(parents) + 1
    # node heights: leaves 0, every internal node strictly above its children
    tree, nodes = tg.build(parents, None, rooted=True)
    age = [None] * n
    for i in range(n - 1, -1, -1):
        if not nodes[i]._child_nodes:
            age[i] = 0
        else:
            a = kw["l%d" % (i + 1)]
            assume(a >= 1)
            assume(a <= 100)
            for c in nodes[i]._child_nodes:
                assume(a > age[nodes.index(c)])
            age[i] = a
    # distinct heights of sibling-less ties make UPGMA's choice unique
    for i in range(1, n):
        nodes[i].edge.length = age[parents[i - 1]] - age[i]
    pdm = PhylogeneticDistanceMatrix.from_tree(tree)
    up = pdm.upgma_tree()
    wf = tg.wellformed(up)
    if wf is not None:
        return wf
    if tg.clades(up) != tg.clades(tree):
        return "upgma-topology-differs"
    d0 = tg.pair_distances(tree)
    d1 = tg.pair_distances(up)
    for k in d0:
        if not close(d1[k], d0[k], d0[k]):
            return "upgma-path-lengths-differ"
    # ultrametric result: every leaf at the root's height
    h = age[0]
    for nd in tg.reachable(up):
        if not nd._child_nodes and not close(tg.root_distance(nd), h, h):
            return "upgma-heights-differ"
    return True


@with_signature(SPEC)
def c14_csv(kw):
    """write_csv -> from_csv gives the same distances (text is concrete at the csv module)"""
    parents = list(kw["shape"])
    n = len(parents) + 1
    lengths = [None] + [[0, 1, 2.5][choose(kw["l%d" % i], 3)] for i in range(1, n)]
    tree, nodes = tg.build(parents, lengths, rooted=True)
    pdm = PhylogeneticDistanceMatrix.from_tree(tree)
    out = io.StringIO()
    pdm.write_csv(out, is_normalize_by_tree_size=False)
    pdm2 = PhylogeneticDistanceMatrix.from_csv(io.StringIO(out.getvalue()), taxon_namespace=tree.taxon_namespace)
    leaves = [nd for nd in nodes if not nd._child_nodes]
    for a in leaves:
        for b in leaves:
            if abs(pdm2.patristic_distance(a.taxon, b.taxon) - pdm.patristic_distance(a.taxon, b.taxon)) > 1e-12:
                return "csv-round-trip-changed-a-distance"
    return True


def classify(inp):
    return "fn%s" % inp.get("fn")


def _leaves(v):
    return sum(1 for i in range(len(v) + 1) if i not in v)


BUDGET = dict(quick=220, thorough=900)


def harnesses(tier):
    q = tier == "quick"
    nmax = 5 if q else 7
    shapes = [v for n in range(3, nmax + 1) for v in tg.all_parent_vectors(n)
              if tg.shape_ok(v, min_leaves=2, max_leaves=(4 if q else 5), allow_unifurcations=(n <= (4 if q else 5)))]
    shapes_u = tg.unordered_representatives(shapes)
    common = dict(assumptions=["a missing edge length counts as 0", "every leaf has a distinct taxon"],
                  outside=["float rounding (tolerance 1e-9 relative)", "non-additive / non-ultrametric matrices", "CSV with non-default delimiters"],
                  classify=classify)
    hs = [Harness("c14_pdm", "C14", c14_pdm, [dict(shape=v, fn=f) for v in shapes_u for f in range(5)],
                  bounds=dict(shapes="%d unordered shapes, 3..%d nodes, 2..%d leaves (polytomies; unifurcations on the small ones)" % (len(shapes_u), nmax, 4 if q else 5),
                              lengths="all symbolic ints in [0,1000] / one missing (symbolic position) / none", pairs="symbolic pair of leaves / nodes; symbolic assemblage (one bool per leaf)",
                              queries="patristic distance, edge count, mrca, symmetry / node matrix / mean pairwise / mean nearest taxon / max pair (one shard each); weighted or edge-count (symbolic)"),
                  functions=["PhylogeneticDistanceMatrix.compile_from_tree", "_mirror_lookups", "patristic_distance", "path_edge_count", "mrca", "distance", "distances",
                             "sum_of_distances", "mean_pairwise_distance", "mean_nearest_taxon_distance", "max_pairwise_distance_taxa",
                             "NodeDistanceMatrix.compile_from_tree", "treemeasure.patristic_distance"], cost=4.0, **common)]
    hs.append(Harness("c14_mrca", "C14", c14_mrca, [dict(shape=v, fn=0) for v in shapes],
                      bounds=dict(shapes="%d ordered shapes" % len(shapes), taxa="symbolic non-empty subset of the leaf taxa", route="taxa= / taxon_labels= / leafset_bitmask= (symbolic)",
                                  encoding="never encoded / current / stale after an edit (swap two leaf taxa, reroot, graft a new leaf) with a refresh requested"),
                      functions=["Tree.mrca", "Tree.encode_bipartitions", "TaxonNamespace.taxa_bitmask"], cost=3.0, **common))
    def _nch(v, i):
        return sum(1 for p in v if p == i)
    nj_shapes = tg.unordered_representatives(
        [v for n in (4, 6, 8) for v in tg.all_parent_vectors(n)
         if _nch(v, 0) == 3 and all(_nch(v, i) in (0, 2) for i in range(1, len(v) + 1))])
    hs.append(Harness("c14_nj", "C14", c14_nj, [dict(shape=v, fn=0) for v in nj_shapes],
                      bounds=dict(shapes="%d unrooted binary shapes (basal trifurcation), %s leaves" % (len(nj_shapes), "3..4" if q else "3..5"),
                                  lengths="symbolic ints in [1,100] on every edge"),
                      functions=["PhylogeneticDistanceMatrix.nj_tree", "compile_from_tree"], cost=3.0, path_timeout=20.0, **common))
    up_shapes = tg.unordered_representatives(
        [v for n in (3, 5) + ((7,) if not q else (7,)) for v in tg.all_parent_vectors(n)
         if all(sum(1 for p in v if p == i) in (0, 2) for i in range(0, len(v) + 1))])
    if q:
        up_shapes = [v for v in up_shapes if _leaves(v) <= 4]
    hs.append(Harness("c14_upgma", "C14", c14_upgma, [dict(shape=v, fn=0) for v in up_shapes],
                      bounds=dict(shapes="%d rooted binary shapes, <= %d leaves" % (len(up_shapes), 4 if q else 4),
                                  ages="symbolic integer node heights in [1,100], parents strictly above children, leaves at 0"),
                      functions=["PhylogeneticDistanceMatrix.upgma_tree", "compile_from_tree"], cost=2.0, path_timeout=20.0, **common))
    hs.append(Harness("c14_csv", "C14", c14_csv, [dict(shape=v, fn=0) for v in shapes_u if len(v) <= 4],
                      bounds=dict(shapes="unordered shapes with <= 5 nodes", lengths="each edge 0, 1 or 2.5 (symbolic choice)"),
                      functions=["PhylogeneticDistanceMatrix.write_csv", "from_csv"], cost=1.0, **common))
    return hs
