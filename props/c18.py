"""C18 - simulated trees meet their specification for every seed and are reproducible."""
import dendropy
from dendropy.model import birthdeath, coalescent
from dendropy.calculate import probability
from dendropy.simulate import treesim

from vlib.driver import Harness, assume, choose, Fail, with_signature
from vlib import treegen as tg
from vlib.symenv import SymRng, Tripwire

NI, NR = 14, 14
SPEC = ([("i%d" % k, int) for k in range(NI)] + [("r%d" % k, int) for k in range(NR)] +
        [("sim", str), ("n", int), ("rates", int), ("ns", int), ("genes", int), ("ndraws", int)])

RATES = [(1.0, 0.0), (1.0, 0.5), (2.0, 1.0)]
CLOSE = 1e-9


def rng_from(kw, nd):
    return SymRng(ints=[kw["i%d" % k] for k in range(nd)], reals=[kw["r%d" % k] for k in range(nd)])


def install_tripwire():
    """any use of the global generator fails the path"""
    saved = []
    for mod in (birthdeath, coalescent, probability, treesim, dendropy.utility):
        if hasattr(mod, "GLOBAL_RNG"):
            saved.append((mod, mod.GLOBAL_RNG))
            mod.GLOBAL_RNG = Tripwire()
    return saved


def restore(saved):
    for mod, v in saved:
        mod.GLOBAL_RNG = v


def same_depth(tree, leaves):
    d0 = tg.root_distance(leaves[0])
    for nd in leaves[1:]:
        d = tg.root_distance(nd) - d0
        if d > CLOSE or d < -CLOSE:
            return False
    return True


def snapshot(tree):
    def rec(nd):
        return (nd.taxon.label if nd.taxon is not None else None, nd._edge.length, [rec(c) for c in nd._child_nodes])
    return rec(tree.seed_node)


def equal_snap(a, b):
    if a[0] != b[0] or len(a[2]) != len(b[2]):
        return False
    if (a[1] is None) != (b[1] is None):
        return False
    if a[1] is not None:
        d = a[1] - b[1]
        if d > CLOSE or d < -CLOSE:
            return False
    for x, y in zip(a[2], b[2]):
        if not equal_snap(x, y):
            return False
    return True


def make_ns(kw, n):
    mode = kw["ns"]
    if mode == 0:
        return None
    if mode == 1:
        return dendropy.TaxonNamespace()
    if mode == 2:
        return dendropy.TaxonNamespace(["T1", "T2"][:max(1, n - 1)])     # fewer taxa than tips, labels collide with generated ones
    return dendropy.TaxonNamespace(["s%d" % i for i in range(n)])


def simulate(kw, rng, sim, n):
    if sim in ("birth_death", "fast_birth_death"):
        b, d = RATES[kw["rates"]]
        f = birthdeath.birth_death_tree if sim == "birth_death" else birthdeath.fast_birth_death_tree
        kwargs = dict(num_extant_tips=n, rng=rng)
        ns = make_ns(kw, n)
        if ns is not None:
            kwargs["taxon_namespace"] = ns
        return f(b, d, **kwargs), None
    if sim == "treesim_birth_death":
        b, d = RATES[kw["rates"]]
        return treesim.birth_death_tree(b, d, num_extant_tips=n, rng=rng), None
    if sim == "pure_birth":
        ns = dendropy.TaxonNamespace(["s%d" % i for i in range(n)])
        return birthdeath.uniform_pure_birth_tree(ns, birth_rate=[1.0, 2.5][kw["rates"] % 2], rng=rng), ns
    if sim == "kingman":
        ns = dendropy.TaxonNamespace(["s%d" % i for i in range(n)])
        return coalescent.pure_kingman_tree(ns, pop_size=[1, 2.5][kw["rates"] % 2], rng=rng), ns
    raise Fail("harness:sim")


@with_signature(SPEC)
def c18_trees(kw):
    sim, n, nd = kw["sim"], kw["n"], kw["ndraws"]
    saved = install_tripwire()
    try:
        rng = rng_from(kw, nd)
        tree, ns = simulate(kw, rng, sim, n)
        # the same draws again -> the same tree
        rng2 = rng_from(kw, nd)
        tree2, _ = simulate(kw, rng2, sim, n)
    finally:
        restore(saved)
    wf = tg.wellformed(tree)
    if wf is not None:
        return wf
    nodes = tg.reachable(tree)
    leaves = [x for x in nodes if not x._child_nodes]
    if len(leaves) != n:
        return "wrong-number-of-extant-leaves"
    taxa = [x.taxon for x in leaves]
    if any(t is None for t in taxa) or len(set(id(t) for t in taxa)) != n:
        return "leaves-do-not-carry-n-distinct-taxa"
    for t in taxa:
        if t not in tree.taxon_namespace:
            return "leaf-taxon-not-in-namespace"
    for x in nodes:
        if len(x._child_nodes) not in (0, 2):
            return "not-bifurcating"
    if ns is not None and sorted(t.label for t in taxa) != sorted(t.label for t in ns):
        return "not-one-leaf-per-taxon"
    if not same_depth(tree, leaves):
        return "extant-tips-not-equidistant-from-root"
    if not equal_snap(snapshot(tree), snapshot(tree2)):
        return "same-generator-state-different-tree"
    return True


SPECIES = "((A:1,B:1):1,C:2):0;"
SP_DIVERGENCE = {frozenset("AB"): 1, frozenset("AC"): 2, frozenset("BC"): 2}


@with_signature(SPEC)
def c18_contained(kw):
    """a gene tree inside a fixed species tree never joins lineages of different species more
    recently than those species diverged"""
    genes, nd = kw["genes"], kw["ndraws"]
    saved = install_tripwire()
    try:
        sp = dendropy.Tree.get(data=SPECIES, schema="newick", rooting="force-rooted")
        gns = dendropy.TaxonNamespace()
        gmap = {}
        # genes per species: g for all, or (pattern >= 10) the three digits give A, B, C
        per = dict(A=genes, B=genes, C=genes) if genes < 10 else dict(A=genes // 100, B=(genes // 10) % 10, C=genes % 10)
        for t in sp.taxon_namespace:
            for g in range(per[t.label]):
                gt = gns.new_taxon("%s_%d" % (t.label, g))
                gmap[gt] = t
        fn = lambda gt: gmap[gt]
        mapping = dendropy.TaxonNamespaceMapping(domain_taxon_namespace=gns, range_taxon_namespace=sp.taxon_namespace, mapping_fn=fn)
        rng = rng_from(kw, nd)
        gene = coalescent.contained_coalescent_tree(sp, mapping, default_pop_size=[1, 2.5][kw["rates"] % 2], rng=rng)
    finally:
        restore(saved)
    wf = tg.wellformed(gene)
    if wf is not None:
        return wf
    nodes = tg.reachable(gene)
    leaves = [x for x in nodes if not x._child_nodes]
    if sorted(x.taxon.label for x in leaves) != sorted(t.label for t in gns):
        return "gene-tree-not-one-leaf-per-gene"
    # node age = distance down to its leaves (tips are contemporaneous)
    depth = {}
    total = None
    for x in leaves:
        d = tg.root_distance(x)
        depth[id(x)] = d
        total = d if total is None else total
        if abs(d - total) > CLOSE:
            return "gene-tree-tips-not-contemporaneous"
    for x in nodes:
        if not x._child_nodes:
            continue
        age = total - tg.root_distance(x)
        kids = x._child_nodes
        for a in range(len(kids)):
            for b in range(a + 1, len(kids)):
                for la in tg.leafset(kids[a]):
                    for lb in tg.leafset(kids[b]):
                        sa, sb = la[0], lb[0]
                        if sa != sb and age < SP_DIVERGENCE[frozenset((sa, sb))] - CLOSE:
                            return "lineages-of-different-species-joined-before-divergence"
    return True


def classify(inp):
    return inp.get("sim", "")


BUDGET = dict(quick=240, thorough=900)


def harnesses(tier):
    q = tier == "quick"
    shards = []
    for sim in ("birth_death", "fast_birth_death", "treesim_birth_death"):
        for n in ((2, 3) if q else (2, 3, 4)):
            for rates in range(len(RATES)):
                for ns in ((0, 2) if sim == "birth_death" else (0,)) if q else ((0, 1, 2, 3) if sim != "treesim_birth_death" else (0,)):
                    shards.append(dict(sim=sim, n=n, rates=rates, ns=ns, genes=1, ndraws=(8 if q else 12)))
    for sim in ("pure_birth", "kingman"):
        for n in ((2, 3, 4) if q else (2, 3, 4, 5)):
            for rates in (0, 1):
                shards.append(dict(sim=sim, n=n, rates=rates, ns=0, genes=1, ndraws=(8 if q else 12)))
    common = dict(assumptions=["SymRng: every draw is an arbitrary value of the method's range (random() = k/1e6 with symbolic k in [0, 999999], expovariate = k/1e6 with symbolic k in [1, 1e9], integer draws uniform over their range); draws beyond the budget are outside the bound",
                               "rates and population sizes are concrete per shard (all arithmetic stays linear)", "GLOBAL_RNG replaced by a tripwire in every model module"],
                  outside=["general sampling (gsa_ntax)", "rate heterogeneity (sd > 0)", "float rounding (tolerance 1e-9)", "more draws than the budget (counted as ignored paths)"],
                  classify=classify, path_timeout=20.0)
    hs = [Harness("c18_trees", "C18", c18_trees, shards,
                  bounds=dict(simulators="birth_death_tree, fast_birth_death_tree, treesim.birth_death_tree, uniform_pure_birth_tree, pure_kingman_tree",
                              tips="N in %s" % ("2..3 (birth-death) / 2..4" if q else "2..4 / 2..5"), rates="(birth, death) in %r; pop size / birth rate in {1, 2.5}" % RATES,
                              namespace="none / empty / partly filled with colliding 'T' labels / full (birth_death_tree)", draws="<= %d integer and %d real draws, every one symbolic" % ((8, 8) if q else (12, 12))),
                  functions=["birthdeath.birth_death_tree", "fast_birth_death_tree", "uniform_pure_birth_tree", "coalescent.pure_kingman_tree", "coalesce_nodes", "time_to_coalescence",
                             "probability.weighted_choice", "weighted_index_choice", "treesim.birth_death_tree"], cost=4.0, **common)]
    cshards = [dict(sim="contained", n=3, rates=r, ns=0, genes=g, ndraws=(12 if q else 14)) for g in ((1, 211, 121, 112) if q else (1, 211, 121, 112, 2, 221, 3)) for r in (0, 1)]
    hs.append(Harness("c18_contained", "C18", c18_contained, cshards,
                      bounds=dict(species_tree=SPECIES, genes_per_species="(A,B,C) in %s" % ("(1,1,1) (2,1,1) (1,2,1) (1,1,2)" if q else "those of quick plus (2,2,2) (2,2,1) (3,3,3)"), pop_size="1 or 2.5", draws="every coalescence time and lineage choice symbolic"),
                      functions=["coalescent.contained_coalescent_tree", "coalesce_nodes", "time_to_coalescence"], cost=2.0, **common))
    return hs
