"""C03 - trees stay well-formed arborescences under every history of mutating operations.

Inductive step: one public mutator applied to an arbitrary valid tree (within the bound), plus
depth-2 compositions.  Well-formedness is the inductive invariant.
"""
import dendropy
from dendropy.datamodel.treemodel import Node
from dendropy.utility import error as dperror

from vlib.driver import Harness, assume, choose, Fail, with_signature
from vlib import treegen as tg
from vlib.symenv import SymRng

MAXN = 7
LMAX = 1000

OPS = ["reseed_at", "reroot_at_node", "reroot_at_edge", "reroot_at_midpoint", "to_outgroup_position",
       "prune_subtree", "prune_taxa", "prune_taxa_with_labels", "retain_taxa",
       "retain_taxa_with_labels", "filter_leaf_nodes", "prune_leaves_without_taxa",
       "collapse_basal_bifurcation", "deroot", "collapse_unweighted_edges", "edge_collapse",
       "collapse_clade", "collapse_conflicting", "resolve_polytomies", "suppress_unifurcations",
       "ladderize", "reorder", "randomly_rotate", "randomly_reorient", "shuffle_taxa",
       "encode_bipartitions", "add_child", "insert_child", "remove_child", "new_child",
       "set_child_nodes", "parent_node_setter"]

# exceptions an operation may raise by documentation (docstring, explicit raise with message, or
# assertion with message) - anything else escaping a mutator is a failure
DOCUMENTED = (ValueError, dperror.SeedNodeDeletionException)

SPEC = ([("l%d" % i, int) for i in range(1, MAXN)] + [("b%d" % i, bool) for i in range(MAXN)] +
        [("d%d" % i, int) for i in range(8)] +
        [("lens_mode", int), ("lnone", int), ("notax", int), ("t1", int), ("t2", int), ("la", int), ("lb", int),
         ("rooted", bool), ("enc", bool), ("f_upd", bool), ("f_sup", bool), ("f_col", bool), ("f_x", bool),
         ("op", str), ("op2", str), ("shape", list), ("lens_modes", int)])


def leaf_taxa_multiset(tree):
    """multiset of taxa on leaves (a leaf without taxon contributes nothing)"""
    return sorted(tg.leaf_label(n) for n in tg.reachable(tree)
                  if not n._child_nodes and n.taxon is not None)


def build_state(kw):
    parents = list(kw["shape"])
    n = len(parents) + 1
    lens_mode = choose(kw["lens_mode"], kw["lens_modes"])
    lengths = [None] * n
    if lens_mode >= 1:
        for i in range(1, n):
            l = kw["l%d" % i]
            assume(l >= 0)
            assume(l <= LMAX)
            lengths[i] = l
        if lens_mode == 2:
            k = choose(kw["lnone"], n - 1) if n > 1 else 0
            lengths[1 + k if n > 1 else 0] = None
    rooted = True if kw["rooted"] else False
    tree, nodes = tg.build(parents, lengths, rooted=rooted)
    leaves = [nd for nd in nodes if not nd._child_nodes]
    if kw["op"] == "prune_leaves_without_taxa" or kw["op2"] == "prune_leaves_without_taxa":
        nt = choose(kw["notax"], len(leaves) + 1)
    else:
        nt = len(leaves) * choose(kw["notax"], 2)   # none, or the last leaf
    if nt > 0:
        assume(len(leaves) >= 2)  # the tree keeps at least one taxon
        leaves[nt - 1].taxon = None
    # a current encoding matters only to operations that can be asked to update it
    enc = False
    if kw["op"] in UPD_OPS or kw["op2"] in UPD_OPS:
        enc = True if kw["enc"] else False
    return tree, nodes, lens_mode, nt, enc


def apply_op(op, tree, nodes, kw, lens_mode, nt, rngdraws):
    """Runs one public mutator.  Returns ("ok", requested_removed_labels|None, upd_flag) or raises."""
    n_all = len(nodes)
    live = tg.reachable(tree)
    internal = [nd for nd in live if nd._child_nodes]
    nonseed = [nd for nd in live if nd._parent_node is not None]
    leaves = [nd for nd in live if not nd._child_nodes]
    F = _Flags(kw)
    removed = None
    if op == "reseed_at":
        assume(len(internal) > 0)
        t = internal[choose(kw["t1"], len(internal))]
        tree.reseed_at(t, update_bipartitions=F.upd, suppress_unifurcations=F.sup,
                       collapse_unrooted_basal_bifurcation=F.col)
    elif op == "reroot_at_node":
        assume(len(internal) > 0)
        t = internal[choose(kw["t1"], len(internal))]
        tree.reroot_at_node(t, update_bipartitions=F.upd, suppress_unifurcations=F.sup,
                            collapse_unrooted_basal_bifurcation=F.col)
    elif op == "reroot_at_edge":
        assume(len(nonseed) > 0)
        t = nonseed[choose(kw["t1"], len(nonseed))]
        la, lb = None, None
        if lens_mode >= 1:
            la, lb = kw["la"], kw["lb"]
            assume(la >= 0)
            assume(la <= LMAX)
            assume(lb >= 0)
            assume(lb <= LMAX)
        tree.reroot_at_edge(t.edge, length1=la, length2=lb, update_bipartitions=F.upd,
                            suppress_unifurcations=F.sup)
    elif op == "reroot_at_midpoint":
        # documented domain: every edge has a length, every leaf a distinct taxon, >= 2 leaves
        assume(lens_mode == 1)
        assume(nt == 0)
        assume(len(leaves) >= 2)
        # ... evaluated on the tree as it is now (an earlier step may have left a taxon-less leaf or a missing length)
        assume(all(x.taxon is not None for x in leaves))
        assume(all(x._edge.length is not None for x in nonseed))
        assume(len(set(id(x.taxon) for x in leaves)) == len(leaves))
        tree.reroot_at_midpoint(update_bipartitions=F.upd, suppress_unifurcations=F.sup,
                                collapse_unrooted_basal_bifurcation=F.col)
    elif op == "to_outgroup_position":
        assume(len(nonseed) > 0)
        t = nonseed[choose(kw["t1"], len(nonseed))]
        tree.to_outgroup_position(t, update_bipartitions=F.upd, suppress_unifurcations=F.sup)
    elif op == "prune_subtree":
        assume(len(nonseed) > 0)
        t = nonseed[choose(kw["t1"], len(nonseed))]
        removed = [str(x) for x in tg.leafset(t)]
        tree.prune_subtree(t, update_bipartitions=F.upd, suppress_unifurcations=F.sup)
    elif op in ("prune_taxa", "prune_taxa_with_labels", "retain_taxa", "retain_taxa_with_labels"):
        taxa = [nd.taxon for nd in leaves if nd.taxon is not None]
        sel = [t for i, t in enumerate(taxa) if kw["b%d" % i]]
        if op.startswith("prune"):
            removed = [t.label for t in sel]
        else:
            removed = [t.label for t in taxa if t not in sel]
        if op == "prune_taxa":
            tree.prune_taxa(sel, update_bipartitions=F.upd, suppress_unifurcations=F.sup)
        elif op == "prune_taxa_with_labels":
            tree.prune_taxa_with_labels([t.label for t in sel], update_bipartitions=F.upd,
                                        suppress_unifurcations=F.sup)
        elif op == "retain_taxa":
            tree.retain_taxa(sel, update_bipartitions=F.upd, suppress_unifurcations=F.sup)
        else:
            tree.retain_taxa_with_labels([t.label for t in sel], update_bipartitions=F.upd,
                                         suppress_unifurcations=F.sup)
    elif op == "filter_leaf_nodes":
        idx = {}
        for i, nd in enumerate(nodes):
            idx[id(nd)] = i
        keepf = lambda nd: (True if kw["b%d" % idx[id(nd)]] else False) if id(nd) in idx else True
        removed = "any"
        tree.filter_leaf_nodes(keepf, recursive=F.fx, update_bipartitions=F.upd,
                               suppress_unifurcations=F.sup)
    elif op == "prune_leaves_without_taxa":
        removed = []
        tree.prune_leaves_without_taxa(recursive=F.fx, update_bipartitions=F.upd,
                                       suppress_unifurcations=F.sup)
    elif op == "collapse_basal_bifurcation":
        tree.collapse_basal_bifurcation(set_as_unrooted_tree=F.fx)
    elif op == "deroot":
        tree.deroot()
    elif op == "collapse_unweighted_edges":
        th = kw["la"]
        assume(th >= 0)
        assume(th <= LMAX)
        tree.collapse_unweighted_edges(threshold=th, update_bipartitions=F.upd)
    elif op == "edge_collapse":
        assume(len(live) > 0)
        t = live[choose(kw["t1"], len(live))]
        t.edge.collapse(adjust_collapsed_head_children_edge_lengths=F.fx)
    elif op == "collapse_clade":
        t = live[choose(kw["t1"], len(live))]
        t.collapse_clade()
    elif op == "collapse_conflicting":
        t = live[choose(kw["t1"], len(live))]
        u = live[choose(kw["t2"], len(live))]
        tree.encode_bipartitions(suppress_unifurcations=False, collapse_unrooted_basal_bifurcation=False)
        t.collapse_conflicting(u.edge.bipartition)
    elif op == "resolve_polytomies":
        rng = SymRng(ints=rngdraws) if F.sup else None
        tree.resolve_polytomies(limit=3 if F.fx else 2, update_bipartitions=F.upd, rng=rng)
    elif op == "suppress_unifurcations":
        tree.suppress_unifurcations(update_bipartitions=F.upd)
    elif op == "ladderize":
        tree.ladderize(ascending=F.fx)
    elif op == "reorder":
        tree.reorder(ascending=F.fx)
    elif op == "randomly_rotate":
        tree.randomly_rotate(rng=SymRng(ints=rngdraws))
    elif op == "randomly_reorient":
        tree.randomly_reorient(rng=SymRng(ints=rngdraws), update_bipartitions=F.upd)
    elif op == "shuffle_taxa":
        tree.shuffle_taxa(include_internal_nodes=F.fx, rng=SymRng(ints=rngdraws))
    elif op == "encode_bipartitions":
        tree.encode_bipartitions(suppress_unifurcations=F.sup, collapse_unrooted_basal_bifurcation=F.col,
                                 suppress_storage=F.fx, is_bipartitions_mutable=F.upd)
        F._c["f_upd"] = not F.fx
    elif op == "add_child":
        t = live[choose(kw["t1"], len(live))]
        t.add_child(Node(taxon=tree.taxon_namespace.require_taxon("Z")))
        removed = ["+Z"]
    elif op == "insert_child":
        t = live[choose(kw["t1"], len(live))]
        pos = choose(kw["t2"], len(t._child_nodes) + 1)
        if F.fx and t._child_nodes:
            # re-inserting an existing child moves it
            t.insert_child(pos, t._child_nodes[-1])
        else:
            t.insert_child(pos, Node(taxon=tree.taxon_namespace.require_taxon("Z")))
            removed = ["+Z"]
    elif op == "new_child":
        t = live[choose(kw["t1"], len(live))]
        t.new_child(taxon=tree.taxon_namespace.require_taxon("Z"), edge_length=1)
        removed = ["+Z"]
    elif op == "remove_child":
        assume(len(nonseed) > 0)
        t = nonseed[choose(kw["t1"], len(nonseed))]
        removed = "any"
        t._parent_node.remove_child(t, suppress_unifurcations=F.sup)
    elif op == "set_child_nodes":
        assume(len(internal) > 0)
        t = internal[choose(kw["t1"], len(internal))]
        ch = list(t._child_nodes)
        rng = SymRng(ints=rngdraws)
        rng.shuffle(ch)
        if F.fx:
            ch = ch[:-1]
        removed = "any"
        t.set_child_nodes(ch)
    elif op == "parent_node_setter":
        assume(len(nonseed) > 0)
        t = nonseed[choose(kw["t1"], len(nonseed))]
        below = set(id(x) for x in _subtree(t))
        cands = [x for x in live if id(x) not in below]
        u = cands[choose(kw["t2"], len(cands))]
        removed = "any"
        t.parent_node = u
    else:
        raise Fail("harness:unknown-op", op)
    return removed, F.used_upd()


class _Flags:
    """Flags are symbolic bools; each is decided (forked on) only if the operation reads it."""

    def __init__(self, kw):
        self._kw = kw
        self._c = {}

    def _get(self, name):
        if name not in self._c:
            self._c[name] = True if self._kw[name] else False
        return self._c[name]

    upd = property(lambda self: self._get("f_upd"))
    sup = property(lambda self: self._get("f_sup"))
    col = property(lambda self: self._get("f_col"))
    fx = property(lambda self: self._get("f_x"))

    def used_upd(self):
        return self._c.get("f_upd", False)


def _subtree(nd):
    out = [nd]
    for c in nd._child_nodes:
        out.extend(_subtree(c))
    return out


UPD_OPS = {"reseed_at", "reroot_at_node", "reroot_at_edge", "reroot_at_midpoint",
           "to_outgroup_position", "prune_subtree", "prune_taxa", "prune_taxa_with_labels",
           "retain_taxa", "retain_taxa_with_labels", "filter_leaf_nodes", "prune_leaves_without_taxa",
           "collapse_unweighted_edges", "resolve_polytomies", "suppress_unifurcations",
           "randomly_reorient", "encode_bipartitions"}


def check_after(tree, op, before_ms, removed, upd, enc):
    wf = tg.wellformed(tree)
    if wf is not None:
        return wf
    it = tg.check_iterators(tree)
    if it is not None:
        return it
    after_ms = leaf_taxa_multiset(tree)
    if removed is None:
        if after_ms != before_ms:
            return "leaf-taxa-changed"
    elif removed == "any":
        rest = list(before_ms)
        for x in after_ms:
            if x in rest:
                rest.remove(x)
            else:
                return "leaf-taxa-gained"
    elif removed and removed[0].startswith("+"):
        exp = sorted(before_ms + [removed[0][1:]])
        # adding a child below a leaf turns that leaf into an internal node
        if after_ms != exp:
            rest = list(exp)
            for x in after_ms:
                if x not in rest:
                    return "leaf-taxa-changed-by-add"
                rest.remove(x)
            if len(rest) > 1:
                return "leaf-taxa-changed-by-add"
    else:
        exp = list(before_ms)
        for x in removed:
            if x in exp:
                exp.remove(x)
        if after_ms != sorted(exp):
            return "leaf-taxa-not-exactly-requested-removal"
    if upd and enc and op in UPD_OPS:
        r = tg.check_encoding_current(tree)
        if r is not None:
            return r
    return None


@with_signature(SPEC)
def c03_step(kw):
    tree, nodes, lens_mode, nt, enc = build_state(kw)
    op = kw["op"]
    if enc:
        # "current encoding": encoded without restructuring, so the pre-state is still arbitrary
        tree.encode_bipartitions(suppress_unifurcations=False,
                                 collapse_unrooted_basal_bifurcation=False)
    before = leaf_taxa_multiset(tree)
    draws = [kw["d%d" % i] for i in range(8)]
    try:
        removed, upd = apply_op(op, tree, nodes, kw, lens_mode, nt, draws)
    except DOCUMENTED as e:
        wf = tg.wellformed(tree)
        return True if wf is None else "after-documented-error:" + wf
    r = check_after(tree, op, before, removed, upd, enc)
    return True if r is None else r


WRAPPERS = ("prune_taxa_with_labels", "retain_taxa", "retain_taxa_with_labels")
BUDGET = dict(quick=240, thorough=900)

STEP2_OPS = ["reseed_at", "reroot_at_edge", "to_outgroup_position", "prune_subtree", "prune_taxa",
             "collapse_basal_bifurcation", "edge_collapse", "resolve_polytomies",
             "suppress_unifurcations", "encode_bipartitions", "remove_child", "reroot_at_midpoint",
             "randomly_reorient", "retain_taxa", "filter_leaf_nodes", "collapse_unweighted_edges"]


@with_signature(SPEC + [("t3", int), ("g_upd", bool), ("g_sup", bool), ("g_x", bool)])
def c03_two_steps(kw):
    """Two operations in sequence: state carried outside the structural invariant (stale
    encodings, cached edge maps) shows up in the second step."""
    tree, nodes, lens_mode, nt, enc = build_state(kw)
    op1, op2 = kw["op"], kw["op2"]
    if enc:
        tree.encode_bipartitions(suppress_unifurcations=False,
                                 collapse_unrooted_basal_bifurcation=False)
    draws = [kw["d%d" % i] for i in range(8)]
    try:
        removed, upd = apply_op(op1, tree, nodes, kw, lens_mode, nt, draws[:4])
    except DOCUMENTED:
        wf = tg.wellformed(tree)
        if wf is not None:
            return "after-documented-error:" + wf
        assume(False)
    r = tg.wellformed(tree)
    if r is not None:
        return r
    current = enc and upd and op1 in UPD_OPS
    if current and tg.check_encoding_current(tree) is not None:
        return "step1:" + tg.check_encoding_current(tree)
    before = leaf_taxa_multiset(tree)
    kw2 = kw.renamed(t1="t3", f_upd="g_upd", f_sup="g_sup", f_x="g_x")
    nt2 = nt
    try:
        removed, upd2 = apply_op(op2, tree, nodes, kw2, lens_mode, nt2, draws[4:])
    except DOCUMENTED:
        wf = tg.wellformed(tree)
        return True if wf is None else "after-documented-error:" + wf
    r = check_after(tree, op2, before, removed, upd2, current)
    return True if r is None else "step2:" + r


def classify(inp):
    c = inp["op"] + ("+" + inp["op2"] if inp.get("op2") else "")
    if len(inp["shape"]) == 0:
        c += ":single-node-tree"
    return c


def harnesses(tier):
    nmax = 4 if tier == "quick" else 5
    lm = 2 if tier == "quick" else 3
    shards = []
    for n in range(1, nmax + 1):
        for v in tg.ordered_representatives(tg.all_parent_vectors(n)):
            for op in OPS:
                if tier == "quick" and n >= 4 and op in WRAPPERS:
                    continue  # thin wrappers of prune_taxa: n <= 3 here, n <= 5 in C08
                shards.append(dict(op=op, op2="", shape=v, lens_modes=lm))
    # the node-level editing primitives also on larger shapes (a seed with three children one of which is internal needs
    # five nodes): quick three shapes of 5-6 nodes, thorough every shape with 6 nodes
    extra = ([0, 0, 0, 1], [0, 0, 1, 1], [0, 0, 0, 1, 1]) if tier == "quick" else tg.ordered_representatives(tg.all_parent_vectors(6))
    for v in extra:
        for op in ("remove_child", "add_child", "insert_child", "new_child", "set_child_nodes", "parent_node_setter", "edge_collapse", "prune_subtree"):
            shards.append(dict(op=op, op2="", shape=v, lens_modes=lm))
    hs = [Harness(
        "c03_step", "C03", c03_step, shards,
        bounds=dict(nodes="every ordered rooted shape with <= %d nodes incl. unifurcations and polytomies" % nmax + (
                        "; node-level primitives (remove/add/insert/new child, set_child_nodes, parent setter, Edge.collapse, prune_subtree) also on " + ("3 shapes of 5-6 nodes" if tier == "quick" else "every shape with 6 nodes")),
                    ops="%d public mutators, one per shard" % len(OPS),
                    lengths="all None / all symbolic ints in [0,1000]" + ("" if tier == "quick" else " / ints with one None (symbolic position)"),
                    taxa="distinct taxa on leaves, optionally one leaf without taxon (symbolic position)",
                    targets="symbolic node/edge indices, symbolic taxon subsets (one bool per taxon)",
                    flags="update_bipartitions, suppress_unifurcations, collapse_unrooted_basal_bifurcation, rooting, encoding current or absent: symbolic bools",
                    rng="<= 8 symbolic integer draws"),
        functions=["Tree." + o for o in OPS[:26]] + ["Node.add_child", "Node.insert_child", "Node.remove_child",
                                                     "Node.new_child", "Node.set_child_nodes", "Node.parent_node", "Edge.collapse", "Edge.invert"],
        assumptions=["targets of reseed_at/reroot_at_node are internal nodes; reroot_at_midpoint needs all lengths and taxa (documented)",
                     "documented errors: ValueError, SeedNodeDeletionException",
                     "add_child/insert_child add fresh nodes (moving a subtree is done with the parent_node setter)"],
        outside=["histories longer than 2", "trees beyond the node bound"],
        classify=classify)]
    # depth-2
    n2 = 4 if tier == "quick" else 5
    shards2 = []
    pairs = [(a, b) for a in STEP2_OPS for b in STEP2_OPS]
    if tier == "quick":
        pairs = [(a, b) for (a, b) in pairs if a in ("reseed_at", "prune_subtree", "encode_bipartitions", "edge_collapse", "to_outgroup_position")
                 and b in ("reseed_at", "prune_taxa", "suppress_unifurcations", "reroot_at_edge", "resolve_polytomies", "remove_child")]
    for v in tg.ordered_representatives(tg.all_parent_vectors(n2)):
        if not tg.shape_ok(v, allow_unifurcations=False, min_leaves=3):
            continue
        for a, b in pairs:
            shards2.append(dict(op=a, op2=b, shape=v, lens_modes=2))
    hs.append(Harness(
        "c03_two_steps", "C03", c03_two_steps, shards2,
        bounds=dict(nodes="shapes with exactly %d nodes, no unifurcations" % n2, pairs="%d ordered pairs of operations" % len(pairs),
                    rest="as c03_step; second operation has its own symbolic target and flags"),
        functions=["Tree." + o for o in STEP2_OPS],
        assumptions=hs[0].assumptions, outside=hs[0].outside, classify=classify,
        shard_budget=20.0 if tier == "quick" else 120.0))
    return hs
