"""C16 - parsimony scores are minimal change counts and pure functions of tree and matrix."""
import dendropy
from dendropy.model import parsimony
from dendropy.calculate import treescore

from vlib.driver import Harness, assume, choose, Fail, with_signature
from vlib import treegen as tg

MAXL = 5
SYMS = ["A", "-", "C", "R", "G", "?", "T", "N"]
INF = 10 ** 6


def state_set(sym, gaps_as_missing):
    base = {"A": {0}, "C": {1}, "G": {2}, "T": {3}, "R": {0, 2}, "N": {0, 1, 2, 3}}
    if sym in base:
        return base[sym]
    if sym == "-":
        return {0, 1, 2, 3} if gaps_as_missing else {4}
    if sym == "?":
        return {0, 1, 2, 3} if gaps_as_missing else {0, 1, 2, 3, 4}
    raise Fail("harness:symbol")


def sankoff_min_changes(tree, leaf_sets, nstates):
    """independent oracle: minimum number of state changes by dynamic programming over all
    assignments of fundamental states to the nodes (unit costs)"""
    def rec(nd):
        if not nd._child_nodes:
            s = leaf_sets[nd.taxon.label]
            return [0 if k in s else INF for k in range(nstates)]
        cs = [rec(c) for c in nd._child_nodes]
        out = []
        for k in range(nstates):
            tot = 0
            for cc in cs:
                best = INF
                for k2 in range(nstates):
                    v = cc[k2] + (0 if k2 == k else 1)
                    if v < best:
                        best = v
                tot += best
            out.append(tot)
        return out
    return min(rec(tree.seed_node))


SPEC = ([("c%d_%d" % (i, j), int) for i in range(MAXL) for j in range(2)] + [("w0", int), ("w1", int)] +
        [("gaps", bool), ("use_w", bool), ("pos", int), ("sym", int), ("col", int), ("t1", int), ("mirror", bool), ("gaps2", bool),
         ("shape", list), ("ncols", int), ("nsyms", int), ("mode", str)])


def matrix_from(cells, labels, tns):
    d = {}
    for lab, row in zip(labels, cells):
        d[lab] = "".join(row)
    return dendropy.DnaCharacterMatrix.from_dict(d, taxon_namespace=tns)


def expected(tree, cells, labels, gaps, weights):
    ncols = len(cells[0])
    per = []
    for j in range(ncols):
        ls = {}
        for lab, row in zip(labels, cells):
            ls[lab] = state_set(row[j], gaps)
        per.append(sankoff_min_changes(tree, ls, 4 if gaps else 5))
    tot = 0
    for j in range(ncols):
        tot = tot + (weights[j] if weights is not None else 1) * per[j]
    return tot, per


@with_signature(SPEC)
def c16_score(kw):
    parents = list(kw["shape"])
    ncols, nsyms = kw["ncols"], kw["nsyms"]
    mode = kw["mode"]
    tree, nodes = tg.build(parents, None, rooted=True)
    tns = tree.taxon_namespace
    leaves = [nd for nd in nodes if not nd._child_nodes]
    labels = [nd.taxon.label for nd in leaves]
    cells = [[SYMS[choose(kw["c%d_%d" % (i, j)], nsyms)] for j in range(ncols)] for i in range(len(leaves))]
    gaps = True if kw["gaps"] else False
    weights = None
    if mode == "score" and kw["use_w"]:
        weights = []
        for j in range(ncols):
            w = kw["w%d" % j]
            assume(w >= 0)
            assume(w <= 100)
            weights.append(w)
    m1 = matrix_from(cells, labels, tns)
    exp, per = expected(tree, cells, labels, gaps, weights)
    if mode == "score":
        bychar = []
        got = parsimony.parsimony_score(tree, m1, gaps_as_missing=gaps, weights=weights, score_by_character_list=bychar)
        if got != exp:
            return "score-not-minimal-change-count"
        if len(bychar) != ncols:
            return "per-character-list-wrong-length"
        s = 0
        for j in range(ncols):
            s = s + bychar[j]
            if bychar[j] != (weights[j] if weights is not None else 1) * per[j]:
                return "per-character-score-wrong"
        if s != got:
            return "per-character-scores-do-not-add-up"
        if treescore.parsimony_score(tree, m1, gaps_as_missing=gaps, weights=weights) != exp:
            return "treescore-alias-differs"
        return True
    if mode == "reroot":
        # independence of root position and child order
        n = len(nodes)
        t = nodes[1 + choose(kw["t1"], n - 1)]
        tree.reroot_at_edge(t.edge, update_bipartitions=False)
        if kw["mirror"]:
            for nd in tg.reachable(tree):
                nd._child_nodes.reverse()
        for nd in tg.reachable(tree):
            if len(nd._child_nodes) not in (0, 2):
                raise Fail("harness:rerooted-tree-not-binary")
        got = parsimony.parsimony_score(tree, m1, gaps_as_missing=gaps, weights=weights)
        if got != exp:
            return "score-depends-on-root-position-or-child-order"
        return True
    if mode == "history":
        # score with m1, then with m2 (one cell changed, possibly another gap treatment) on the
        # same tree object, then with m1 again: every call equals the score of a fresh tree
        got1 = parsimony.parsimony_score(tree, m1, gaps_as_missing=gaps, weights=weights)
        if got1 != exp:
            return "score-not-minimal-change-count"
        cells2 = [list(r) for r in cells]
        i = choose(kw["pos"], len(leaves))
        j = choose(kw["col"], ncols)
        cells2[i][j] = SYMS[choose(kw["sym"], nsyms)]
        gaps2 = True if kw["gaps2"] else False
        m2 = matrix_from(cells2, labels, tns)
        exp2, _ = expected(tree, cells2, labels, gaps2, weights)
        got2 = parsimony.parsimony_score(tree, m2, gaps_as_missing=gaps2, weights=weights)
        if got2 != exp2:
            return "second-call-with-other-matrix-not-a-pure-function"
        got3 = parsimony.parsimony_score(tree, m1, gaps_as_missing=gaps, weights=weights)
        if got3 != exp:
            return "third-call-not-a-pure-function"
        # the same matrix object scored under the other gap treatment
        exp4, _ = expected(tree, cells, labels, not gaps, weights)
        if parsimony.parsimony_score(tree, m1, gaps_as_missing=not gaps, weights=weights) != exp4:
            return "same-matrix-other-gap-treatment-not-a-pure-function"
        return True
    raise Fail("harness:mode")


def classify(inp):
    return inp["mode"]


def _binary(v):
    return all(sum(1 for p in v if p == i) in (0, 2) for i in range(len(v) + 1))


BUDGET = dict(quick=200, thorough=900)


def harnesses(tier):
    q = tier == "quick"
    sizes = (3, 5, 7) if q else (3, 5, 7, 9)
    shapes = tg.unordered_representatives([v for n in sizes for v in tg.all_parent_vectors(n) if _binary(v)])
    shards = []
    for v in shapes:
        nl = (len(v) + 2) // 2
        if nl <= 3:
            shards.append(dict(shape=v, ncols=2, nsyms=(4 if nl <= 2 else (2 if q else 3)), mode="score"))
        big = 0 if q else 1
        shards.append(dict(shape=v, ncols=1, nsyms=(6 if nl <= 3 else (3 + big if nl == 4 else 3)), mode="score"))
        shards.append(dict(shape=v, ncols=1, nsyms=(4 if nl <= 3 else 2 + big), mode="reroot"))
        shards.append(dict(shape=v, ncols=1, nsyms=(4 if nl <= 3 else 2 + big), mode="history"))
    # split the big shards on the first one or two cells (concrete per shard) for parallelism
    split = []
    for sh in shards:
        nl = (len(sh["shape"]) + 2) // 2
        if nl <= 2:
            split.append(sh)
            continue
        for a in range(sh["nsyms"]):
            if nl >= 4 or sh["ncols"] == 2:
                for b in range(sh["nsyms"]):
                    split.append(dict(sh, c0_0=a, c1_0=b))
            else:
                split.append(dict(sh, c0_0=a))
    shards = split
    return [Harness(
        "c16_score", "C16", c16_score, shards,
        bounds=dict(shapes="%d rooted binary shapes, 2..%d leaves" % (len(shapes), (max(sizes) + 1) // 2),
                    cells="every cell a symbolic choice among the first k of %r (k per shard: 3..6)" % SYMS, columns="1 (2 for <= 3 leaves)",
                    weights="none or symbolic int in [0,100] per column (score is linear in them)", gaps="gaps_as_missing symbolic",
                    history="score m1; score m2 = m1 with one symbolic cell changed (own gap treatment); score m1; score m1 under the other gap treatment",
                    reroot="reroot at a symbolic edge, optionally reverse every child list"),
        functions=["parsimony.parsimony_score", "fitch_down_pass", "_retrieve_state_sets_from_attr", "_store_sets_as_attr",
                   "DiscreteCharacterMatrix.taxon_state_sets_map", "treescore.parsimony_score"],
        assumptions=["fully bifurcating trees (documented requirement)", "DNA alphabet; '?' = any state incl. gap, N = any nucleotide"],
        outside=["polytomous trees", "state_sets_attr_name=None", "other data types"],
        classify=classify)]
