"""C10 - taxon namespaces keep a stable one-to-one taxon/bit map and exact label lookups."""
import copy

import dendropy
from dendropy.datamodel.taxonmodel import Taxon, TaxonNamespace
from dendropy.datamodel.treemodel import Bipartition
from dendropy.utility import error as dperror

from vlib.driver import Harness, assume, choose, Fail, with_signature

K = 4        # max members in the pre-state
POOL = ["a", "A", "b"]
FIXED = ["a", "B", "ab", "A"]

OPS = ["add_new", "add_existing", "add_taxa", "append", "new_taxon", "new_taxa", "require_taxon",
       "remove_taxon", "remove_nonmember", "remove_taxon_label", "discard_taxon_label",
       "sort", "reverse", "clear", "relabel", "delitem", "copy", "deepcopy", "constructor",
       "iadd_like_history", "remove_then_readd"]

SPEC = ([("i%d" % k, int) for k in range(K)] + [("lab%d" % k, int) for k in range(K)] +
        [("c%d" % k, bool) for k in range(K)] + [("s%d" % k, bool) for k in range(K + 2)] +
        [("gap", int), ("t1", int), ("q", int), ("ns_case", bool), ("call_case", int), ("first", bool),
         ("mutable", bool), ("f_x", bool), ("mask", int),
         ("op", str), ("k", int), ("nbits", int)])


LABEL_OPS = ("require_taxon", "remove_taxon_label", "discard_taxon_label", "sort", "relabel")


def make_state(kw):
    """An arbitrary valid namespace built directly: k members in list order with arbitrary
    distinct accession indices, a counter above the largest index, a partly filled mask cache.
    For the label-driven operations the labels are symbolic choices from a pool (duplicates and
    case variants) and the index assignment is one of three presets; for the others the labels
    are fixed and every injective index assignment is reachable."""
    k, nbits = kw["k"], kw["nbits"]
    ns = TaxonNamespace(is_case_sensitive=True if kw["ns_case"] else False)
    label_op = kw["op"] in LABEL_OPS
    if label_op:
        preset = choose(kw["i0"], 3)
        idx = [list(range(k)), list(range(k - 1, -1, -1)), [2 * j + 1 for j in range(k)]][preset]
        nbits = max(nbits, 2 * k + 1)
    else:
        avail = list(range(nbits))
        idx = [avail.pop(choose(kw["i%d" % j], len(avail))) for j in range(k)]
    members = []
    for j in range(k):
        lab = POOL[choose(kw["lab%d" % j], len(POOL))] if label_op else FIXED[j]
        t = Taxon(label=lab)
        ns._taxa.append(t)
        ns._accession_index_taxon_map[idx[j]] = t
        ns._taxon_accession_index_map[t] = idx[j]
        members.append(t)
    top = (max(idx) + 1) if idx else 0
    ns._current_accession_count = top + (0 if kw["op"] == "masks" else choose(kw["gap"], 2))
    cmode = choose(kw["mask"], 3)      # mask cache: empty / complete / only the first member
    for j in range(k):
        if cmode == 1 or (cmode == 2 and j == 0):
            ns._taxon_bitmask_map[members[j]] = 1 << idx[j]
    return ns, members, idx


def matches(labels, q, cs):
    out = []
    for j, l in enumerate(labels):
        if (l == q) if cs else (l.lower() == q.lower()):
            out.append(j)
    return out


def effective_case(kw, ns):
    cc = choose(kw["call_case"], 3)
    arg = [None, True, False][cc]
    cs = ns.is_case_sensitive if arg is None else arg
    return arg, cs


def check_bits(ns, expect):
    """expect: list of (taxon, bit) that must be members with exactly that bit"""
    seen = {}
    for t, b in expect:
        if t not in ns:
            return "member-lost"
        if ns.taxon_bitmask(t) != b:
            return "bit-of-surviving-member-changed"
    for t in ns:
        b = ns.taxon_bitmask(t)
        if b <= 0 or (b & (b - 1)) != 0:
            return "mask-not-a-single-bit"
        if b in seen:
            return "two-members-share-a-bit"
        seen[b] = t
        if ns.accession_index(t) != b.bit_length() - 1:
            return "accession-index-disagrees-with-mask"
    return None


@with_signature(SPEC)
def c10_step(kw):
    ns, members, idx = make_state(kw)
    op = kw["op"]
    k = len(members)
    bits = [1 << i for i in idx]
    old_count = ns._current_accession_count
    labels = [t.label for t in members]
    mutable = True
    if op in ("add_new", "add_taxa", "append", "new_taxon", "new_taxa", "require_taxon"):
        mutable = True if kw["mutable"] else False
        ns.is_mutable = mutable
    survivors = list(range(k))   # indices into members expected to stay, in list order
    new = []                     # taxa expected to be added (after the old ones)
    raised = None
    try:
        if op == "add_new":
            t = Taxon(label="n")
            new = [t]
            ns.add_taxon(t)
        elif op == "append":
            t = Taxon(label="n")
            new = [t]
            ns.append(t)
        elif op == "add_existing":
            assume(k > 0)
            ns.add_taxon(members[choose(kw["t1"], k)])
        elif op == "add_taxa":
            t = Taxon(label="n")
            new = [t]
            lst = [t] + ([members[choose(kw["t1"], k)]] if k else []) + [t]
            ns.add_taxa(lst)
        elif op == "new_taxon":
            lab = POOL[choose(kw["q"], len(POOL))]
            t = ns.new_taxon(lab)
            new = [t]
            if t.label != lab:
                return "new-taxon-wrong-label"
        elif op == "new_taxa":
            ts = ns.new_taxa(["n1", POOL[choose(kw["q"], len(POOL))]])
            new = list(ts)
        elif op == "require_taxon":
            q = (POOL + ["zz"])[choose(kw["q"], len(POOL) + 1)]
            arg, cs = effective_case(kw, ns)
            m = matches(labels, q, cs)
            t = ns.require_taxon(q, is_case_sensitive=arg)
            if m:
                if t is not members[m[0]]:
                    return "require-did-not-return-first-match"
            else:
                new = [t]
                if t.label != q:
                    return "require-created-wrong-label"
        elif op == "remove_taxon":
            assume(k > 0)
            j = choose(kw["t1"], k)
            ns.remove_taxon(members[j])
            survivors.remove(j)
        elif op == "delitem":
            assume(k > 0)
            j = choose(kw["t1"], k)
            del ns[j]
            survivors.remove(j)
        elif op == "remove_nonmember":
            try:
                ns.remove_taxon(Taxon(label="a"))
                return "remove-of-nonmember-did-not-raise"
            except ValueError:
                pass
        elif op in ("remove_taxon_label", "discard_taxon_label"):
            q = (POOL + ["zz"])[choose(kw["q"], len(POOL) + 1)]
            arg, cs = effective_case(kw, ns)
            first = True if kw["first"] else False
            m = matches(labels, q, cs)
            gone = m[:1] if first else m
            if op == "remove_taxon_label":
                try:
                    ns.remove_taxon_label(q, is_case_sensitive=arg, first_match_only=first)
                    if not m:
                        return "remove-label-without-match-did-not-raise"
                except LookupError:
                    if m:
                        return "remove-label-raised-despite-match"
            else:
                ns.discard_taxon_label(q, is_case_sensitive=arg, first_match_only=first)
            for j in gone:
                survivors.remove(j)
        elif op == "sort":
            rev = True if kw["f_x"] else False
            ns.sort(reverse=rev)
            order = sorted(range(k), key=lambda j: labels[j], reverse=rev)
            got = [t.label for t in ns]
            if got != [labels[j] for j in order]:
                return "sort-order-wrong"
            survivors = None
        elif op == "reverse":
            ns.reverse()
            survivors = list(reversed(survivors))
        elif op == "clear":
            ns.clear()
            survivors = []
        elif op == "relabel":
            assume(k > 0)
            j = choose(kw["t1"], k)
            members[j].label = POOL[choose(kw["q"], len(POOL))]
            labels[j] = members[j].label
        elif op in ("copy", "deepcopy", "constructor"):
            if op == "copy":
                ns2 = copy.copy(ns)
            elif op == "deepcopy":
                ns2 = copy.deepcopy(ns)
            else:
                ns2 = TaxonNamespace(ns)
            if ns2 is ns:
                return "copy-is-the-same-object"
            if len(ns2) != k:
                return "copy-has-wrong-number-of-members"
            for j, t2 in enumerate(ns2):
                if t2.label != labels[j]:
                    return "copy-label-or-order-differs"
                if op == "deepcopy":
                    if t2 is members[j]:
                        return "deepcopy-shares-taxon"
                elif t2 is not members[j]:
                    return "namespace-scoped-copy-does-not-share-taxon"
                if ns2.taxon_bitmask(t2) != bits[j]:
                    return "copied-taxon-has-different-bit"
            r = check_bits(ns2, [])
            if r is not None:
                return "copy:" + r
            # a member added to the copy gets a fresh bit there and does not appear in the source
            t = ns2.new_taxon("n")
            if ns2.taxon_bitmask(t) in bits or ns2.taxon_bitmask(t) < (1 << old_count):
                return "copy-new-member-reuses-a-bit"
            if len(ns) != k:
                return "copy-not-independent"
        elif op == "iadd_like_history":
            # two-step history: remove a member, then add two new ones (bits never reused)
            assume(k > 0)
            j = choose(kw["t1"], k)
            ns.remove_taxon(members[j])
            survivors.remove(j)
            a, b = ns.new_taxon("n1"), ns.new_taxon("n2")
            new = [a, b]
        elif op == "remove_then_readd":
            # history on one Taxon object: its bit is looked up (and may be cached), it is removed by one of the
            # removal routes and later added back: it is a new member then, with a bit of its own again
            assume(k > 0)
            j = choose(kw["t1"], k)
            t = members[j]
            if kw["f_x"]:
                ns.taxa_bitmask(taxa=[t])
            how = choose(kw["q"], 3)
            if how == 0:
                ns.remove_taxon(t)
            elif how == 1:
                del ns[j]
            else:
                t.label = "only-this-one"
                ns.discard_taxon_label("only-this-one", is_case_sensitive=True)
            survivors.remove(j)
            if kw["first"]:
                ns.add_taxon(t)
            else:
                ns.add_taxa([t])
            new = [t]
            back = ns.bitmask_taxa_list(ns.taxa_bitmask(taxa=[t]))
            if len(back) != 1 or back[0] is not t:
                return "mask-round-trip-of-readded-member-wrong"
        else:
            raise Fail("harness:op", op)
    except dperror.ImmutableTaxonNamespaceError:
        raised = "immutable"
    if not mutable:
        if len(ns) != k:
            return "immutable-namespace-gained-or-lost-members"
        if new and raised != "immutable":
            return "immutable-namespace-did-not-refuse"
        new = []
    elif raised is not None:
        return "mutable-namespace-raised-immutable-error"
    # membership model
    if survivors is not None:
        exp = [members[j] for j in survivors] + new
        got = list(ns)
        if len(got) != len(exp):
            return "membership-count-wrong"
        for a, b in zip(got, exp):
            if a is not b:
                return "membership-or-order-wrong"
    r = check_bits(ns, [(members[j], bits[j]) for j in (survivors if survivors is not None else range(k))])
    if r is not None:
        return r
    for t in new:
        b = ns.taxon_bitmask(t)
        if b < (1 << old_count):
            return "new-member-got-a-used-bit"
    return True


@with_signature(SPEC)
def c10_masks(kw):
    """mask <-> taxa round trips and every textual rendering, for an arbitrary valid namespace"""
    ns, members, idx = make_state(kw)
    k = len(members)
    for j, t in enumerate(members):
        t.label = "t%d" % j     # distinct plain labels so renderings can be parsed back
    mode = choose(kw["t1"], 3)
    if mode == 1:
        ns.reverse()
    elif mode == 2:
        ns.sort(reverse=True)
    sub = [j for j in range(k) if kw["s%d" % j]]
    mask = 0
    for j in sub:
        mask |= 1 << idx[j]
    if ns.taxa_bitmask(taxa=[members[j] for j in sub]) != mask:
        return "taxa_bitmask-wrong"
    if ns.taxa_bitmask(labels=[members[j].label for j in sub]) != mask:
        return "taxa_bitmask-by-labels-wrong"
    back = ns.bitmask_taxa_list(mask)
    if sorted(id(t) for t in back) != sorted(id(members[j]) for j in sub):
        return "bitmask_taxa_list-does-not-return-the-same-taxa"
    s = ns.bitmask_as_bitstring(mask)
    if len(s) != ns._current_accession_count and mask < (1 << ns._current_accession_count):
        return "bitstring-length-wrong"
    for i in range(len(s)):
        bit = len(s) - 1 - i
        if (s[i] == "1") != bool(mask & (1 << bit)):
            return "bitstring-has-1-at-wrong-position"
    full = 0
    for i in idx:
        full |= 1 << i
    exp_left = sorted(members[j].label for j in sub)
    b = Bipartition(leafset_bitmask=mask, tree_leafset_bitmask=full, compile_bipartition=True, is_rooted=True)
    renderings = [ns.bitmask_as_newick_string(mask), b.leafset_as_newick_string(ns), b.split_as_newick_string(ns)]
    for nw in renderings:
        if mask == 0 or mask == ns.all_taxa_bitmask():
            continue   # rendered as the whole set
        if not (nw.startswith("((") and nw.endswith("));")):
            return "newick-rendering-malformed"
        left = nw[2:nw.index(")")]
        got = sorted(x.strip() for x in left.split(",") if x.strip())
        if got != exp_left:
            return "newick-rendering-names-wrong-taxa"
    if sorted(id(t) for t in b.leafset_taxa(ns)) != sorted(id(members[j]) for j in sub):
        return "leafset_taxa-wrong"
    return True


LPOOL = ["a", "A", "aB", "Ab"]
QPOOL = ["a", "A", "ab", "AB", "aB", "b", "c"]
SPEC_L = [("l0", int), ("l1", int), ("l2", int), ("q", int), ("r", int), ("ns_case", bool), ("call_case", int),
          ("fn", int), ("hist", int), ("first", bool), ("L", int)]
ALPHA = "aAbB_"


def _ok_label(s, L):
    if len(s) < 1 or len(s) > L:
        return False
    for ch in s:
        if ch not in ALPHA:
            return False
    return True


@with_signature(SPEC_L)
def c10_lookup(kw):
    """label lookups with symbolic member labels and a symbolic query"""
    L = kw["L"]
    # member labels and the query are symbolic choices from pools that contain duplicates,
    # case variants and non-members (symbolic *strings* make str.lower() cost > 1 s per path
    # in the solver, measured; the pools keep the quantification over label multisets instead)
    labels = [LPOOL[choose(kw["l%d" % j], len(LPOOL))] for j in range(L)] + ["b"] * (3 - L)
    q = QPOOL[choose(kw["q"], len(QPOOL))]
    ns = TaxonNamespace(is_case_sensitive=True if kw["ns_case"] else False)
    members = [ns.new_taxon(l) for l in labels]
    fn = choose(kw["fn"], 6)
    if kw["hist"]:
        # history: a lookup (fills caches), then relabel the first member, then look up again
        ns.get_taxon(q)
        r = QPOOL[choose(kw["r"], len(QPOOL))]
        members[0].label = r
        labels[0] = r
    cc = choose(kw["call_case"], 3)
    arg = [None, True, False][cc]
    cs = ns.is_case_sensitive if arg is None else arg
    m = matches(labels, q, cs)
    if fn == 0:
        got = ns.findall(q, is_case_sensitive=arg)
        if len(got) != len(m):
            return "findall-wrong-number"
        for t, j in zip(got, m):
            if t is not members[j]:
                return "findall-wrong-members-or-order"
    elif fn == 1:
        t = ns.get_taxon(q, is_case_sensitive=arg)
        if m:
            if t is not members[m[0]]:
                return "get_taxon-not-first-match"
        elif t is not None:
            return "get_taxon-found-nonmatching"
    elif fn == 2:
        if ns.has_taxon_label(q, is_case_sensitive=arg) != bool(m):
            return "has_taxon_label-wrong"
    elif fn == 3:
        first = True if kw["first"] else False
        got = ns.get_taxa([q, labels[2]], is_case_sensitive=arg, first_match_only=first)
        m2 = matches(labels, labels[2], cs)
        if first:
            exp = [members[x[0]] for x in (m, m2) if x]
        else:
            exp = []
            for j in m + m2:
                if members[j] not in exp:
                    exp.append(members[j])
        if len(got) != len(exp):
            return "get_taxa-wrong-number"
        for a, b in zip(got, exp):
            if a is not b:
                return "get_taxa-wrong-members-or-order"
    elif fn == 4:
        if ns.has_taxa_labels([q, labels[1]], is_case_sensitive=arg) != bool(m):
            return "has_taxa_labels-wrong"
    else:
        n0 = len(ns)
        t = ns.require_taxon(q, is_case_sensitive=arg)
        if m:
            if t is not members[m[0]] or len(ns) != n0:
                return "require_taxon-not-first-match"
        else:
            if len(ns) != n0 + 1 or ns[n0] is not t or t.label != q:
                return "require_taxon-did-not-create-exactly-one"
    return True


def classify(inp):
    return inp.get("op", "lookup")


BUDGET = dict(quick=200, thorough=900)


def harnesses(tier):
    q = tier == "quick"
    kmax = 3 if q else 4
    nbits = 4 if q else 6
    shards = [dict(op=op, k=k, nbits=nbits) for k in range(0, kmax + 1) for op in OPS]
    common = dict(assumptions=["pre-state satisfies the representation invariant: index maps mutually inverse, counter above every index",
                               "labels are str"],
                  outside=["labels that are not str", "Unicode case folding beyond ASCII"], classify=classify)
    hs = [Harness("c10_step", "C10", c10_step, shards,
                  bounds=dict(members="0..%d members, list order arbitrary" % kmax, bits="distinct accession indices symbolic in [0,%d), counter = max+1 or max+2" % nbits,
                              labels="label-driven operations: each label a symbolic choice from {a, A, b} with 3 preset index assignments; other operations: fixed labels, every injective index assignment", cache="bitmask cache empty / complete / first member only (symbolic)",
                              ops="%d operations, one per shard (incl. copy, deepcopy, copy-constructor, a remove+add history)" % len(OPS),
                              case="namespace and per-call case sensitivity symbolic"),
                  functions=["TaxonNamespace.add_taxon/add_taxa/append/new_taxon/new_taxa/require_taxon/remove_taxon/remove_taxon_label/"
                             "discard_taxon_label/sort/reverse/clear/__delitem__/__copy__/__deepcopy__/__init__", "taxon_bitmask", "accession_index", "Taxon.label"],
                  cost=3.0, **common)]
    mshards = [dict(op="masks", k=k, nbits=nbits) for k in range(1, kmax + 1)]
    hs.append(Harness("c10_masks", "C10", c10_masks, mshards,
                      bounds=dict(members="1..%d" % kmax, subset="one symbolic bool per member", order="as built / reversed / sorted descending"),
                      functions=["TaxonNamespace.taxa_bitmask", "bitmask_taxa_list", "bitmask_as_bitstring", "bitmask_as_newick_string",
                                 "nexusprocessing.bitmask_as_newick_string", "Bipartition.leafset_as_newick_string/split_as_newick_string/leafset_taxa"],
                      cost=1.0, **common))
    L = 2 if q else 3
    hs.append(Harness("c10_lookup", "C10", c10_lookup, [dict(fn=f, L=L, hist=h) for h in (0, 1) for f in range(6)],
                      bounds=dict(labels="%d member labels each a symbolic choice from %r (+ fixed 'b'); query a symbolic choice from %r" % (L, LPOOL, QPOOL),
                                  functions="findall/get_taxon/has_taxon_label/get_taxa/has_taxa_labels/require_taxon (one shard each)",
                                  history="plain lookup / lookup, relabel first member (symbolic choice of new label), lookup (one shard each)"),
                      functions=["TaxonNamespace._lookup_label", "findall", "get_taxon", "get_taxa", "has_taxon_label", "has_taxa_labels", "require_taxon", "Taxon.lower_cased_label"],
                      cost=3.0, **common))
    return hs
