"""C12 - copies are equal to their source and independent of it at the documented depth."""
import copy

import dendropy
from dendropy.datamodel.treemodel import Tree

from vlib.driver import Harness, assume, choose, Fail, with_signature
from vlib import treegen as tg

MAXN = 6
ROUTES = ["deepcopy", "clone2", "clone1", "constructor", "copy", "clone0", "extract"]
DEEP = {"deepcopy", "clone2"}
SCOPED = {"clone1", "constructor", "copy", "clone0"}
LABELSETS = [["A", "B", "C", "D"], ["a", "A", "b", "c"], ["x", "x", "y", "z"], ["p", None, "q", "r"]]

SPEC = ([("l%d" % i, int) for i in range(MAXN)] + [("v%d" % i, int) for i in range(4)] +
        [("mut", int), ("side", bool), ("t1", int), ("newv", int), ("enc", bool), ("labelset", int), ("nskw", bool),
         ("shape", list), ("route", str)])


def build_tree(kw):
    parents = list(kw["shape"])
    n = len(parents) + 1
    lengths = [None]
    for i in range(1, n):
        l = kw["l%d" % i]
        assume(l >= 0)
        assume(l <= 1000)
        lengths.append(l)
    ls = LABELSETS[kw["labelset"]]
    tns = dendropy.TaxonNamespace(is_case_sensitive=False)
    tree = Tree(taxon_namespace=tns)
    nodes = [tree.seed_node] + [dendropy.Node() for _ in range(n - 1)]
    for i in range(1, n):
        nodes[parents[i - 1]].add_child(nodes[i])
        nodes[i].edge.length = lengths[i]
    k = 0
    for nd in nodes:
        if not nd._child_nodes:
            nd.taxon = tns.new_taxon(ls[k % len(ls)])     # distinct Taxon objects even for equal labels
            k += 1
        else:
            nd.label = "in%d" % nodes.index(nd)
    tree.is_rooted = True
    tree.label = "tree-label"
    tree.comments.append("a comment")
    # annotations: plain on the tree, plain on a node (symbolic value), bound to the node's own
    # attribute, bound to an attribute of another owner (the node's edge), plain on an edge
    tree.annotations.add_new("tname", kw["v0"])
    tree.weight = kw["v0"]
    tree.annotations.add_bound_attribute("weight")          # bound to an attribute of the tree itself
    for x in nodes:
        if x.taxon is not None:
            x.taxon.annotations.add_new("tx", [kw["v1"], "m"])      # an annotation with a mutable value on a taxon
            break
    nd = nodes[-1]
    nd.annotations.add_new("nplain", kw["v1"])
    nd.extra = kw["v2"]
    nd.annotations.add_bound_attribute("extra")
    nd.annotations.add_bound_attribute("length", annotation_name="elen", owner_instance=nd.edge)
    nd.edge.annotations.add_new("eplain", kw["v3"])
    nd.comments.append("node comment")
    if kw["enc"]:
        tree.encode_bipartitions(suppress_unifurcations=False, collapse_unrooted_basal_bifurcation=False)
    return tree, nodes


def describe(tree):
    """value-level description used for equality and for before/after snapshots"""
    def ann(x):
        return [(a.name, a.value) for a in x.annotations]

    def rec(nd):
        return ((nd.taxon.label, ann(nd.taxon)) if nd.taxon is not None else None, nd.label, nd._edge.length, ann(nd), ann(nd._edge),
                list(nd.comments), getattr(nd, "extra", None), [rec(c) for c in nd._child_nodes])
    enc = None
    if tree.bipartition_encoding is not None:
        enc = sorted(b.split_bitmask for b in tree.bipartition_encoding)
    return (rec(tree.seed_node), tree.is_rooted, tree.label, list(tree.comments), ann(tree), enc,
            [t.label for t in tree.taxon_namespace])


def same(a, b):
    return a == b


def census(tree):
    nodes = tg.reachable(tree)
    ids = dict(nodes=set(id(x) for x in nodes), edges=set(id(x._edge) for x in nodes),
               taxa=set(id(x.taxon) for x in nodes if x.taxon is not None), ns=set([id(tree.taxon_namespace)]),
               taxon_anns=(set(id(a) for x in nodes if x.taxon is not None for a in x.taxon.annotations) |
                           set(id(a.value) for x in nodes if x.taxon is not None for a in x.taxon.annotations if isinstance(a.value, list))),
               anns=set(id(a) for x in nodes for a in list(x.annotations) + list(x._edge.annotations)) | set(id(a) for a in tree.annotations),
               bips=(set(id(x._edge._bipartition) for x in nodes if x._edge._bipartition is not None) |
                     set(id(b) for b in (tree.bipartition_encoding or []))),
               annsets=set(id(x.annotations) for x in nodes), comments=set(id(x.comments) for x in nodes) | set([id(tree.comments)]))
    return ids


def make_copy(tree, route, nskw):
    if route == "deepcopy":
        return copy.deepcopy(tree)
    if route == "clone2":
        return tree.clone(2)
    if route == "clone1":
        return tree.clone(1)
    if route == "constructor":
        return Tree(tree, taxon_namespace=tree.taxon_namespace) if nskw else Tree(tree)
    if route == "copy":
        return copy.copy(tree)
    if route == "clone0":
        return tree.clone(0)
    if route == "extract":
        # extraction suppresses unifurcations unless told not to (documented default): a source with a unifurcation is
        # copied with suppress_unifurcations=False, which is the call that promises the same structure
        if any(len(nd._child_nodes) == 1 for nd in tg.reachable(tree)):
            return tree.extract_tree(suppress_unifurcations=False)
        return tree.extract_tree()
    raise Fail("harness:route")


@with_signature(SPEC)
def c12_tree(kw):
    route = kw["route"]
    tree, nodes = build_tree(kw)
    src_before = describe(tree)
    cp = make_copy(tree, route, True if kw["nskw"] else False)
    if cp is tree:
        return "copy-is-the-source"
    wf = tg.wellformed(cp)
    if wf is not None:
        return "copy:" + wf
    d_src, d_cp = describe(tree), describe(cp)
    if d_src != src_before:
        return "copying-changed-the-source"
    if route == "extract":
        # structure, lengths, labels and taxa only
        def strip(d):
            def rec(x):
                return (x[0], x[1], x[2], [rec(c) for c in x[7]])
            return rec(d[0])
        if strip(d_src) != strip(d_cp):
            return "extracted-tree-differs-in-structure-labels-or-lengths"
    elif d_src != d_cp:
        for i, nm in enumerate(("nodes/labels/lengths/annotations/comments", "rooting", "tree-label", "tree-comments", "tree-annotations", "bipartition-encoding", "namespace-labels")):
            if d_src[i] != d_cp[i]:
                return "copy-not-equal-to-source:" + nm
    c_src, c_cp = census(tree), census(cp)
    for part in ("nodes", "edges", "anns", "annsets", "comments", "bips"):
        if c_src[part] & c_cp[part]:
            return "copy-shares-" + part
    if route in DEEP:
        if c_src["taxa"] & c_cp["taxa"] or c_src["ns"] & c_cp["ns"]:
            return "deep-copy-shares-taxa-or-namespace"
        if c_src["taxon_anns"] & c_cp["taxon_anns"]:
            return "deep-copy-shares-taxon-annotations-or-their-values"
    else:
        if c_src["ns"] != c_cp["ns"]:
            return "scoped-copy-has-another-namespace"
        # the i-th leaf of the copy carries the very taxon of the i-th leaf of the source
        la = [x for x in tg.reachable(tree) if not x._child_nodes]
        lb = [x for x in tg.reachable(cp) if not x._child_nodes]
        for x, y in zip(la, lb):
            if x.taxon is not y.taxon:
                return "scoped-copy-leaf-on-a-different-taxon"
        if len(tree.taxon_namespace) != len(src_before[6]):
            return "copy-changed-the-shared-namespace"
    if route != "extract":
        # attribute-bound annotations of the copy are bound to the copy's own objects
        last = tg.reachable(cp)
        nd2 = [x for x in last if hasattr(x, "extra")]
        if len(nd2) != 1:
            return "extra-attribute-not-copied"
        nd2 = nd2[0]
        for a in nd2.annotations:
            if a.is_attribute:
                owner = a._value[0]
                if owner is not nd2 and owner is not nd2._edge:
                    return "bound-annotation-of-copy-still-bound-to-source-object"
    # ---- one mutation of one side; the other side must not see it
    mutate_src = True if kw["side"] else False
    a, b = (tree, cp) if mutate_src else (cp, tree)
    other_before = describe(b)
    live = tg.reachable(a)
    mut = choose(kw["mut"], 8)
    x = live[choose(kw["t1"], len(live))]
    newv = kw["newv"]
    if mut == 0:
        x.edge.length = newv
    elif mut == 1:
        x.label = "changed"
    elif mut == 2:
        x.annotations.add_new("added", newv)
    elif mut == 3:
        for an in list(x.annotations) + list(a.annotations):
            if not an.is_attribute:
                an.value = newv
    elif mut == 4:
        if hasattr(x, "extra"):
            x.extra = newv
        x.comments.append("more")
        a.comments.append("more")
    elif mut == 5:
        if x._parent_node is not None and len(live) > 2:
            a.prune_subtree(x, suppress_unifurcations=False)
    elif mut == 6:
        a.encode_bipartitions()
        a.is_rooted = False
    else:
        if route in DEEP and x.taxon is not None:
            x.taxon.label = "relabelled"
        a.label = "other"
    if describe(b) != other_before:
        return "mutation-of-one-side-visible-through-the-other"
    if route != "extract" and mut in (0, 4):
        # bound annotations follow the attributes of the object they sit on
        for nd in tg.reachable(a):
            for an in nd.annotations:
                if an.is_attribute and an.name == "extra" and an.value != nd.extra:
                    return "bound-annotation-does-not-follow-its-attribute"
                if an.is_attribute and an.name == "elen" and an.value != nd.edge.length:
                    return "bound-annotation-does-not-follow-its-attribute"
    if route != "extract":
        # the tree's own bound annotation follows the attribute of the tree it sits on, on both sides
        for obj, delta in ((cp, 1), (tree, 2), (cp, 3)):
            obj.weight = kw["newv"] + delta
            for x in (cp, tree):
                for an in x.annotations:
                    if an.is_attribute and an.name == "weight" and an.value != x.weight:
                        return "tree-bound-annotation-does-not-follow-its-attribute"
    return True


SPEC_C = ([("v%d" % i, int) for i in range(6)] + [("mut", int), ("side", bool), ("newv", int), ("kind", str), ("route", str)])


@with_signature(SPEC_C)
def c12_collections(kw):
    """TreeList, CharacterMatrix (continuous: symbolic cell values) and TaxonNamespace"""
    kind, route = kw["kind"], kw["route"]
    tns = dendropy.TaxonNamespace(["a", "b", "c"])
    if kind == "treelist":
        obj = dendropy.TreeList(taxon_namespace=tns)
        for i in range(2):
            t, _ = tg.build([0, 0, 1, 1], [None, kw["v0"], kw["v1"], kw["v2"], kw["v3"]], tns=tns, labels=["a", "b", "c"])
            obj.append(t)
        obj.annotations.add_new("k", kw["v4"])
        desc = lambda o: ([tg.snapshot(t) for t in o], [(a.name, a.value) for a in o.annotations], [t.label for t in o.taxon_namespace])
        parts = lambda o: set(id(t) for t in o) | set(id(n) for t in o for n in tg.reachable(t)) | set(id(a) for a in o.annotations)
    elif kind == "matrix":
        obj = dendropy.ContinuousCharacterMatrix(taxon_namespace=tns)
        for i, t in enumerate(tns):
            obj[t] = [kw["v%d" % (2 * (i % 3))], kw["v%d" % (2 * (i % 3) + 1)]]
        obj.annotations.add_new("k", kw["v4"])
        desc = lambda o: ([(t.label, list(o[t].values())) for t in o], [(a.name, a.value) for a in o.annotations], [t.label for t in o.taxon_namespace])
        parts = lambda o: set(id(o[t]) for t in o) | set(id(a) for a in o.annotations)
    else:
        obj = tns
        tns.annotations.add_new("k", kw["v4"])
        desc = lambda o: ([t.label for t in o], [(a.name, a.value) for a in o.annotations])
        parts = lambda o: set(id(a) for a in o.annotations)
    before = desc(obj)
    if route == "deepcopy":
        cp = copy.deepcopy(obj)
    elif route == "clone2":
        cp = obj.clone(2)
    elif route == "clone1":
        cp = obj.clone(1)
    else:
        cp = type(obj)(obj)
    if desc(cp) != before or desc(obj) != before:
        return "collection-copy-not-equal-to-source"
    if parts(obj) & parts(cp):
        return "collection-copy-shares-mutable-parts"
    deep = route in ("deepcopy", "clone2")
    if kind != "namespace":
        if deep and cp.taxon_namespace is obj.taxon_namespace:
            return "deep-copy-shares-namespace"
        if not deep and cp.taxon_namespace is not obj.taxon_namespace:
            return "scoped-copy-has-another-namespace"
    elif deep and set(id(t) for t in cp) & set(id(t) for t in obj):
        return "deep-copy-of-namespace-shares-taxa"
    a, b = (obj, cp) if kw["side"] else (cp, obj)
    ob = desc(b)
    mut = choose(kw["mut"], 3)
    if mut == 0:
        a.annotations.add_new("n2", kw["newv"])
    elif mut == 1:
        if kind == "treelist":
            a[0].seed_node._child_nodes[0].edge.length = kw["newv"]
            a[1].seed_node.label = "x"
        elif kind == "matrix":
            a[a.taxon_namespace.get_taxon("a")][0] = kw["newv"]
        else:
            a.new_taxon("d")
    else:
        if kind == "treelist":
            del a[1]
        elif kind == "matrix":
            del a[a.taxon_namespace.get_taxon("b")]
        elif deep:
            a[0].label = "relabelled"
    if desc(b) != ob:
        return "mutation-of-one-collection-visible-through-the-other"
    return True


def classify(inp):
    return "%s:labelset%s" % (inp.get("route"), inp.get("labelset"))


BUDGET = dict(quick=220, thorough=900)


def harnesses(tier):
    q = tier == "quick"
    shapes = [[0, 0], [0, 0, 1, 1]] + ([] if q else [[0, 0, 0, 1, 1], [0, 1, 1]])
    shards = [dict(shape=v, route=r, labelset=ls) for v in shapes for r in ROUTES for ls in range(len(LABELSETS))]
    common = dict(assumptions=["copy.copy of TreeList/CharacterMatrix is a documented shallow copy and is not claimed to be namespace-scoped",
                               "relabelling a shared taxon is by design visible through a namespace-scoped copy (tested for deep copies only)"],
                  outside=["DataSet (documented as not copyable)", "user attributes holding exotic objects"], classify=classify)
    hs = [Harness("c12_tree", "C12", c12_tree, shards,
                  bounds=dict(shapes="%d shapes" % len(shapes), routes="deepcopy, clone(2), clone(1), Tree(tree) with/without taxon_namespace=, copy.copy, clone(0), extract_tree (one shard each)",
                              content="symbolic edge lengths and annotation values; plain, self-bound and foreign-owner-bound annotations; comments; extra attribute; encoding present or not",
                              labels="distinct / case variants / duplicates / a None label (one shard each)",
                              mutation="one of 8 symbolic mutations (length, label, annotation add/change, attribute, prune, re-encode+reroot flag, relabel) of either side at a symbolic node"),
                  functions=["Annotable.__deepcopy__", "deep_copy_annotations_from", "AnnotationSet.__deepcopy__", "Tree._clone_from", "Tree.__copy__", "Tree.taxon_namespace_scoped_copy",
                             "Tree.extract_tree", "TaxonNamespace.populate_memo_for_taxon_namespace_scoped_copy", "Node.__deepcopy__", "Edge.__deepcopy__"], cost=4.0, **common)]
    cshards = [dict(kind=k, route=r) for k in ("treelist", "matrix", "namespace") for r in ("deepcopy", "clone2", "clone1", "constructor")
               if not (k == "namespace" and r in ("clone1",))]
    hs.append(Harness("c12_collections", "C12", c12_collections, cshards,
                      bounds=dict(objects="TreeList of two trees, continuous CharacterMatrix (3x2 symbolic cells), TaxonNamespace; symbolic values", routes="deepcopy, clone(2), clone(1), copy constructor",
                                  mutation="annotation added / content edited / member removed or relabelled, on either side"),
                      functions=["TreeList._clone_from", "TreeList.__deepcopy__", "CharacterMatrix._clone_from", "CharacterMatrix.__deepcopy__", "TaxonNamespace.__deepcopy__", "TaxonNamespace.__init__"],
                      cost=1.0, **common))
    return hs
