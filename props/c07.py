"""C07 - re-rooting and re-orienting never change the underlying unrooted tree."""
from vlib.driver import Harness, assume, choose, Fail, with_signature
from vlib import treegen as tg
from vlib.symenv import SymRng

MAXN = 8
LMAX = 10 ** 6

OPS = ["reseed_at", "reroot_at_node", "reroot_at_edge", "reroot_at_midpoint",
       "to_outgroup_position", "randomly_reorient", "randomly_rotate", "ladderize", "reorder",
       "suppress_unifurcations", "collapse_basal_bifurcation"]
SOFT = {"reseed_at", "to_outgroup_position", "randomly_reorient", "randomly_rotate", "ladderize",
        "reorder", "suppress_unifurcations"}
HARD = {"reroot_at_node", "reroot_at_edge", "reroot_at_midpoint"}

SPEC = ([("l%d" % i, int) for i in range(1, MAXN)] +
        [("target", int), ("la", int), ("lb", int), ("f_upd", bool), ("f_sup", bool),
         ("f_col", bool), ("rooted", bool)] + [("d%d" % i, int) for i in range(10)] +
        [("op", str), ("shape", list)])


@with_signature(SPEC)
def c07_reroot(kw):
    op = kw["op"]
    parents = list(kw["shape"])
    n = len(parents) + 1
    lengths = [None]
    for i in range(1, n):
        l = kw["l%d" % i]
        assume(l >= 0)
        assume(l <= LMAX)
        lengths.append(l)
    rooted = kw["rooted"]
    if rooted:
        rooted = True
    else:
        rooted = False
    tree, nodes = tg.build(parents, lengths, rooted=rooted)
    upd = True if kw["f_upd"] else False
    sup = True if kw["f_sup"] else False
    col = True if kw["f_col"] else False
    leaves0 = tg.leaf_labels(tree)
    splits0 = tg.unrooted_splits(tree)
    total0 = tg.total_length(tree)
    dist0 = tg.pair_distances(tree)
    internal = [nd for nd in nodes if nd._child_nodes]
    expected_total = total0
    cross = None
    if op == "reseed_at":
        t = internal[choose(kw["target"], len(internal))]
        tree.reseed_at(t, update_bipartitions=upd, suppress_unifurcations=sup,
                       collapse_unrooted_basal_bifurcation=col)
    elif op == "reroot_at_node":
        t = internal[choose(kw["target"], len(internal))]
        tree.reroot_at_node(t, update_bipartitions=upd, suppress_unifurcations=sup,
                            collapse_unrooted_basal_bifurcation=col)
    elif op == "reroot_at_edge":
        t = nodes[1 + choose(kw["target"], n - 1)]
        la, lb = kw["la"], kw["lb"]
        assume(la >= 0)
        assume(la <= LMAX)
        assume(lb >= 0)
        assume(lb <= LMAX)
        below = tg.leafset(t)
        old = t._edge.length
        tree.reroot_at_edge(t.edge, length1=la, length2=lb, update_bipartitions=upd,
                            suppress_unifurcations=sup)
        expected_total = total0 + la + lb - old
        cross = (below, la + lb - old)
        if t._parent_node is not tree.seed_node:
            return "edge-root:head-not-child-of-new-root"
        if t._edge.length != lb:
            return "edge-root:length2-not-on-head-edge"
    elif op == "reroot_at_midpoint":
        assume(len(leaves0) >= 2)
        tree.reroot_at_midpoint(update_bipartitions=upd, suppress_unifurcations=sup,
                                collapse_unrooted_basal_bifurcation=col)
    elif op == "to_outgroup_position":
        t = nodes[1 + choose(kw["target"], n - 1)]
        tree.to_outgroup_position(t, update_bipartitions=upd, suppress_unifurcations=sup)
        if tree.seed_node._child_nodes[0] is not t:
            return "outgroup-not-first-child"
    elif op == "randomly_reorient":
        rng = SymRng(ints=[kw["d%d" % i] for i in range(10)])
        tree.randomly_reorient(rng=rng, update_bipartitions=upd)
    elif op == "randomly_rotate":
        rng = SymRng(ints=[kw["d%d" % i] for i in range(10)])
        tree.randomly_rotate(rng=rng)
    elif op == "ladderize":
        tree.ladderize(ascending=upd)
    elif op == "reorder":
        tree.reorder(ascending=upd)
    elif op == "suppress_unifurcations":
        tree.suppress_unifurcations(update_bipartitions=upd)
    elif op == "collapse_basal_bifurcation":
        tree.collapse_basal_bifurcation(set_as_unrooted_tree=upd)
    else:
        raise Fail("harness:unknown-op")
    wf = tg.wellformed(tree)
    if wf is not None:
        return wf
    if tg.leaf_labels(tree) != leaves0:
        return "leafset-changed"
    if tg.unrooted_splits(tree) != splits0:
        return "unrooted-splits-changed"
    if tg.total_length(tree) != expected_total:
        return "total-length-changed"
    dist1 = tg.pair_distances(tree)
    if cross is None:
        if not tg.same_dict(dist0, dist1):
            return "leaf-path-length-changed"
    else:
        below, delta = cross
        for k in dist0:
            exp = dist0[k]
            if (k[0] in below) != (k[1] in below):
                exp = exp + delta
            if dist1[k] != exp:
                return "edge-root:path-length-wrong"
    if op == "reroot_at_midpoint":
        D = None
        for k in dist1:
            if D is None or dist1[k] > D:
                D = dist1[k]
        lv = {}
        for nd in tg.reachable(tree):
            if not nd._child_nodes:
                lv[tg.leaf_label(nd)] = tg.root_distance(nd)
        found = False
        for k in dist1:
            if dist1[k] == D and 2 * lv[k[0]] == D and 2 * lv[k[1]] == D:
                found = True
                break
        if not found:
            return "midpoint-not-equidistant"
    if op in HARD:
        if tree.is_rooted is not True:
            return "hard-op-did-not-set-rooted"
    elif op in SOFT:
        if tree.is_rooted is not rooted:
            return "soft-op-changed-rooting-flag"
    elif op == "collapse_basal_bifurcation":
        pass
    return True


def classify(inp):
    op = inp["op"]
    parents = list(inp["shape"])
    n = len(parents) + 1
    nch = [0] * n
    for p in parents:
        nch[p] += 1
    if op == "to_outgroup_position":
        t = 1 + inp["target"]
        if (not inp["rooted"]) and nch[0] == 2 and parents[t - 1] == 0 and nch[t] >= 2:
            return "to_outgroup_position:unrooted-basal-bifurcation:outgroup-is-internal-child-of-seed"
    return op


MAIN_OPS = ("reroot_at_midpoint", "reseed_at", "reroot_at_edge", "to_outgroup_position", "reroot_at_node")


def shapes(n, allow_unif):
    return [v for v in tg.ordered_representatives(tg.all_parent_vectors(n))
            if tg.shape_ok(v, allow_unifurcations=allow_unif, min_leaves=2)]


def harnesses(tier):
    nmax_all, nmax_main = (5, 5) if tier == "quick" else (6, 7)
    nmax_rnd = 4 if tier == "quick" else 5
    shards = []
    for n in range(3, nmax_main + 1):
        for op in OPS:
            if n > nmax_all and op not in MAIN_OPS:
                continue
            if op in ("randomly_reorient", "randomly_rotate") and n > nmax_rnd:
                continue
            for v in shapes(n, allow_unif=(op == "suppress_unifurcations")):
                shards.append(dict(op=op, shape=v))
    return [Harness(
        "c07_reroot", "C07", c07_reroot, shards,
        bounds=dict(nodes="every ordered shape with <= %d nodes for all ops, <= %d nodes for %s "
                    "(one shard per shape x op; no unifurcations except for suppress_unifurcations)"
                    % (nmax_all, nmax_main, "/".join(MAIN_OPS)),
                    lengths="symbolic int in [0,1e6] per non-seed edge; seed edge None",
                    targets="symbolic index over all admissible nodes/edges", flags="symbolic bools "
                    "update_bipartitions, suppress_unifurcations, collapse_unrooted_basal_bifurcation, is_rooted",
                    rng="<= 10 symbolic integer draws"),
        functions=["Tree.reseed_at", "Tree.reroot_at_node", "Tree.reroot_at_edge", "Tree.reroot_at_midpoint",
                   "Tree.to_outgroup_position", "Tree.randomly_reorient", "Tree.randomly_rotate",
                   "Tree.ladderize", "Tree.reorder", "Tree.suppress_unifurcations",
                   "Tree.collapse_basal_bifurcation", "Edge.invert",
                   "PhylogeneticDistanceMatrix.compile_from_tree", "max_pairwise_distance_taxa"],
        assumptions=["reseed_at/reroot_at_node targets are internal nodes (documented precondition)",
                     "no unifurcations in the start tree except for suppress_unifurcations",
                     "SymRng: every integer draw is any value in the requested range"],
        outside=["float rounding of plen/2", "None lengths for metric checks",
                 "trees with more nodes than the bound"],
        classify=classify, cost=1.0)]
