"""C04 - tree-to-tree distances equal their split-set definitions and are true metrics."""
import dendropy
from dendropy.calculate import treecompare
from dendropy.utility import error as dperror

from vlib.driver import Harness, assume, choose, Fail, with_signature
from vlib import treegen as tg

MAXN = 10
LMAX = 1000

SPEC = ([("a%d" % i, int) for i in range(1, MAXN)] + [("b%d" % i, int) for i in range(1, MAXN)] +
        [("rooted", bool), ("rot", int), ("swap", bool), ("nonemode", int), ("nonepos", int), ("fn", int),
         ("edit", int), ("t1", int), ("t2", int), ("mirror", bool),
         ("shape", list), ("shape2", list)])


def split_lengths(tree, rooted):
    """dict split -> total length of the edges inducing it (harness-side, raw links).
    rooted: split = clade (frozenset of labels); unrooted: unordered bipartition.  The seed edge
    (split = whole leaf set) is included: its length counts like any other."""
    allset = tg.leafset(tree.seed_node)
    out = {}
    for nd in tg.reachable(tree):
        x = tg.leafset(nd)
        if rooted:
            key = x
        else:
            key = frozenset((x, allset - x))
        l = nd._edge.length
        if l is None:
            l = 0
        out[key] = out.get(key, 0) + l
    return out


def build_pair(kw, lens=True, relabel="full"):
    p1, p2 = list(kw["shape"]), list(kw["shape2"])
    rooted = True if kw["rooted"] else False
    tns = dendropy.TaxonNamespace()
    n1, n2 = len(p1) + 1, len(p2) + 1
    l1 = [None] + [kw["a%d" % i] for i in range(1, n1)]
    l2 = [None] + [kw["b%d" % i] for i in range(1, n2)]
    if lens:
        for l in l1[1:] + l2[1:]:
            assume(l >= 0)
            assume(l <= LMAX)
    else:
        # Euclidean sub-harness: every edge has length 1 except one edge of t1 (symbolic position)
        # whose length is 0, 2 or 5 (symbolic choice); sqrt is a C function, so values are concrete
        l1 = [None] + [1] * (n1 - 1)
        l2 = [None] + [1] * (n2 - 1)
        l1[1 + choose(kw["a1"], n1 - 1)] = [0, 2, 5][choose(kw["a2"], 3)]
    t1, nodes1 = tg.build(p1, l1, rooted=rooted, tns=tns)
    if relabel == "full" and kw["mirror"]:
        t1.seed_node._child_nodes.reverse()
    nl = len([x for x in nodes1 if not x._child_nodes])
    # second tree: rotation (+ optional swap of the first two) of the leaf labelling
    r = choose(kw["rot"], nl)
    labs = [tg.LABELS[(k + r) % nl] for k in range(nl)]
    if relabel == "full" and kw["swap"]:
        labs[0], labs[1] = labs[1], labs[0]
    t2, nodes2 = tg.build(p2, l2, rooted=rooted, tns=tns, labels=labs)
    return t1, t2, nodes1, nodes2, rooted, tns


def l1_norm(s1, s2):
    tot = 0
    for k in s1:
        tot = tot + abs(s1[k] - s2.get(k, 0))   # abs() of a symbolic value is an ite term, no fork
    for k in s2:
        if k not in s1:
            tot = tot + s2[k]
    return tot


@with_signature(SPEC)
def c04_counts_and_wrf(kw):
    t1, t2, nodes1, nodes2, rooted, tns = build_pair(kw)
    s1, s2 = split_lengths(t1, rooted), split_lengths(t2, rooted)
    only1 = [k for k in s1 if k not in s2]
    only2 = [k for k in s2 if k not in s1]
    fn = choose(kw["fn"], 5)
    if fn == 0:
        got = treecompare.symmetric_difference(t1, t2)
        if got != len(only1) + len(only2):
            return "symmetric-difference-wrong"
        if treecompare.symmetric_difference(t2, t1) != got:
            return "symmetric-difference-asymmetric"
        if t1.symmetric_difference(t2) != got:
            return "Tree.symmetric_difference-differs"
    elif fn == 1:
        fp, fneg = treecompare.false_positives_and_negatives(t1, t2)
        # reference = t1, comparison = t2: false positives are splits of t2 absent from t1
        if fp != len(only2) or fneg != len(only1):
            return "false-positives-negatives-wrong"
    elif fn == 2:
        missing = treecompare.find_missing_bipartitions(t1, t2)
        if len(missing) != len(only1):
            return "find-missing-bipartitions-wrong-count"
    elif fn == 3:
        got = treecompare.weighted_robinson_foulds_distance(t1, t2)
        exp = l1_norm(s1, s2)
        if got != exp:
            return "weighted-rf-not-L1-of-length-differences"
        if treecompare.weighted_robinson_foulds_distance(t2, t1) != got:
            return "weighted-rf-asymmetric"
        # both encodings are current now: saying so must not change the value, however often it is asked
        for _i in range(2):
            if treecompare.weighted_robinson_foulds_distance(t1, t2, is_bipartitions_updated=True) != got:
                return "weighted-rf-differs-with-current-encodings-declared"
        if treecompare.weighted_robinson_foulds_distance(t2, t1, is_bipartitions_updated=True) != got:
            return "weighted-rf-differs-with-current-encodings-declared"
        # a tree against itself (the trivial re-drawing)
        if treecompare.weighted_robinson_foulds_distance(t1, t1) != 0:
            return "weighted-rf-of-a-tree-with-itself-not-zero"
        if treecompare.symmetric_difference(t2, t2) != 0:
            return "symmetric-difference-of-a-tree-with-itself-not-zero"
    else:
        if treecompare.unweighted_robinson_foulds_distance(t1, t2) != len(only1) + len(only2):
            return "unweighted-rf-wrong"
    return True


@with_signature(SPEC)
def c04_euclid(kw):
    """Euclidean distance with small concrete lengths per path (sqrt is a C function)."""
    t1, t2, nodes1, nodes2, rooted, tns = build_pair(kw, lens=False, relabel="rotation")
    s1, s2 = split_lengths(t1, rooted), split_lengths(t2, rooted)
    sq = 0
    for k in set(s1) | set(s2):
        d = s1.get(k, 0) - s2.get(k, 0)
        sq += d * d
    got = treecompare.euclidean_distance(t1, t2)
    if abs(got * got - sq) > 1e-9 * (1 + sq):
        return "euclidean-not-L2-of-length-differences"
    if abs(treecompare.euclidean_distance(t2, t1) - got) > 1e-12:
        return "euclidean-asymmetric"
    return True


def _defined(f, a, b):
    try:
        return ("ok", f(a, b))
    except ValueError:
        return ("refused", None)


@with_signature(SPEC)
def c04_missing_lengths(kw):
    """symmetry of definedness with a missing edge length in one of the trees"""
    t1, t2, nodes1, nodes2, rooted, tns = build_pair(kw, relabel="rotation")
    which = choose(kw["nonemode"], 2)
    nodes = nodes1 if which == 0 else nodes2
    k = 1 + choose(kw["nonepos"], len(nodes) - 1)
    nodes[k].edge.length = None
    f = treecompare.weighted_robinson_foulds_distance if kw["fn"] == 0 else treecompare.euclidean_distance
    r12 = _defined(f, t1, t2)
    r21 = _defined(f, t2, t1)
    if r12[0] != r21[0]:
        return "definedness-asymmetric"
    if r12[0] == "ok":
        d = r12[1] - r21[1]
        if d > 1e-9 or d < -1e-9:
            return "value-asymmetric-with-missing-length"
    return True


@with_signature(SPEC)
def c04_stale(kw):
    """a distance call, a structural edit, then a second call with default arguments"""
    t1, t2, nodes1, nodes2, rooted, tns = build_pair(kw, relabel="rotation")
    fn = choose(kw["fn"], 2)
    f = [treecompare.symmetric_difference, treecompare.weighted_robinson_foulds_distance][fn]
    first = f(t1, t2)
    # structural edit of t1 (after the first call's encoding may have restructured it)
    live = tg.reachable(t1)
    nonseed = [x for x in live if x._parent_node is not None]
    edit = choose(kw["edit"], 4)
    if edit == 0:
        # prune and regraft: move a subtree below another node
        x = nonseed[choose(kw["t1"], len(nonseed))]
        below = set(id(y) for y in tg.reachable_from(x))
        cands = [y for y in live if id(y) not in below and y is not x._parent_node and y._child_nodes]
        assume(len(cands) > 0)
        y = cands[choose(kw["t2"], len(cands))]
        x._parent_node.remove_child(x)
        y.add_child(x)
        t1.suppress_unifurcations()
    elif edit == 1:
        internal = [x for x in nonseed if x._child_nodes]
        assume(len(internal) > 0)
        internal[choose(kw["t1"], len(internal))].edge.collapse()
    elif edit == 2:
        leaves = [x for x in live if not x._child_nodes]
        a = leaves[choose(kw["t1"], len(leaves))]
        b = leaves[choose(kw["t2"], len(leaves))]
        a.taxon, b.taxon = b.taxon, a.taxon
    else:
        internal = [x for x in live if x._child_nodes]
        t1.reseed_at(internal[choose(kw["t1"], len(internal))], update_bipartitions=False)
    wf = tg.wellformed(t1)
    if wf is not None:
        raise Fail("harness:edit-broke-tree", wf)
    assume(len(tg.leaf_labels(t1)) == len(tg.leaf_labels(t2)))
    s1, s2 = split_lengths(t1, rooted), split_lengths(t2, rooted)
    only1 = [k for k in s1 if k not in s2]
    only2 = [k for k in s2 if k not in s1]
    second = f(t1, t2)
    exp = l1_norm(s1, s2) if fn == 1 else len(only1) + len(only2)
    if second != exp:
        return "stale-result-after-structural-edit"
    return True


@with_signature(SPEC)
def c04_namespace(kw):
    """trees over different namespaces are refused"""
    p1, p2 = list(kw["shape"]), list(kw["shape2"])
    t1, _ = tg.build(p1, None, rooted=True)
    t2, _ = tg.build(p2, None, rooted=True)
    fs = [treecompare.symmetric_difference, treecompare.false_positives_and_negatives,
          treecompare.weighted_robinson_foulds_distance, treecompare.euclidean_distance,
          treecompare.find_missing_bipartitions]
    f = fs[choose(kw["fn"], len(fs))]
    try:
        f(t1, t2)
    except dperror.TaxonNamespaceIdentityError:
        return True
    return "different-namespaces-not-refused"


def classify(inp):
    return "fn%s" % (0 if inp.get("fn") == 0 else 1)


def _leaves(v):
    return sum(1 for i in range(len(v) + 1) if i not in v)


BUDGET = dict(quick=200, thorough=900)


def harnesses(tier):
    q = tier == "quick"
    maxl = 4 if q else 5
    shapes = [v for n in range(4, (7 if q else 9) + 1) for v in tg.all_parent_vectors(n)
              if tg.shape_ok(v, allow_unifurcations=False, min_leaves=3, max_leaves=maxl)]
    # one representative per unordered shape; child order at the root is a symbolic flag
    shapes = tg.unordered_representatives(shapes)
    pairs = [(a, b) for a in shapes for b in shapes if _leaves(a) == _leaves(b) and a <= b]
    common = dict(assumptions=["both trees share one namespace and leaf set", "a missing length counts as 0 in the oracle"],
                  outside=["is_bipartitions_updated=True misuse", "float rounding", "Euclidean distance beyond the stated small length patterns (its length pairing is the one verified for all lengths under weighted RF)"],
                  classify=classify)
    B = dict(pairs="%d unordered pairs of unordered shapes without unifurcations, 3..%d leaves; child order at the root of t1 symbolic" % (len(pairs), maxl),
             labelling="second tree's labelling: symbolic rotation + optional swap", rooting="symbolic (both trees alike)",
             lengths="symbolic int in [0,1000] per non-seed edge of both trees")
    hs = [Harness("c04_counts_and_wrf", "C04", c04_counts_and_wrf, [dict(shape=a, shape2=b) for a, b in pairs], bounds=B,
                  functions=["treecompare.symmetric_difference", "false_positives_and_negatives", "find_missing_bipartitions",
                             "weighted_robinson_foulds_distance", "unweighted_robinson_foulds_distance", "_get_length_diffs",
                             "_bipartition_difference", "Tree.symmetric_difference", "Tree.encode_bipartitions"], cost=3.0, **common)]
    small = [(a, b) for (a, b) in pairs if len(a) + len(b) <= (11 if q else 13)]
    hs.append(Harness("c04_euclid", "C04", c04_euclid, [dict(shape=a, shape2=b) for a, b in small],
                      bounds=dict(B, lengths="all edges 1 except one edge of t1 (symbolic position) with length 0/2/5", pairs="%d pairs" % len(small)),
                      functions=["treecompare.euclidean_distance", "_get_length_diffs"], cost=1.0, **common))
    hs.append(Harness("c04_missing_lengths", "C04", c04_missing_lengths, [dict(shape=a, shape2=b) for a, b in small],
                      bounds=dict(B, missing="one edge (symbolic position, in either tree) has no length", pairs="%d pairs" % len(small)),
                      functions=["treecompare.weighted_robinson_foulds_distance", "euclidean_distance", "_get_length_diffs"], cost=1.0, **common))
    hs.append(Harness("c04_stale", "C04", c04_stale, [dict(shape=a, shape2=b) for a, b in small],
                      bounds=dict(B, history="distance call; edit of t1 (prune+regraft / edge collapse / swap two leaf taxa / reseed; symbolic targets); distance call", pairs="%d pairs" % len(small)),
                      functions=["treecompare.*", "Tree.encode_bipartitions", "Tree.bipartition_edge_map"], cost=2.0, **common))
    hs.append(Harness("c04_namespace", "C04", c04_namespace, [dict(shape=shapes[0], shape2=shapes[0])],
                      bounds=dict(functions="5 distance functions (symbolic choice)"), functions=["treecompare.*"], **common))
    return hs
