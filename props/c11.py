"""C11 - collections keep every member inside their own taxon namespace."""
import dendropy
from dendropy.datamodel.taxonmodel import Taxon

from vlib.driver import Harness, assume, choose, Fail, with_signature
from vlib import treegen as tg
from vlib.symenv import SymStream

POOL = ["a", "A", "b", "c", "B"]
DST_PRESETS = [[], ["a"], ["A", "b"], ["c", "a", "x"]]

SPEC = ([("s%d_%d" % (k, i), int) for k in range(3) for i in range(3)] + [("dst", int), ("dst_case", bool), ("strategy", bool),
         ("pos", int), ("sel", int), ("memo", int), ("op2", int), ("op", str), ("kind", str)])


SRC_PRESETS = [["a", "b", "c"], ["A", "b", "C"], ["a", "B", "x"], ["x", "y", "z"]]


def source_labels(kw, k):
    """three labels for source namespace k: a symbolic choice among label sets that are equal,
    case variants of each other, overlapping or disjoint"""
    return list(SRC_PRESETS[choose(kw["s%d_0" % k], len(SRC_PRESETS))])


def source_tree(labels):
    tns = dendropy.TaxonNamespace()
    t, _ = tg.build([0, 0, 1, 1], None, rooted=True, tns=tns, labels=labels)
    return t


def source_matrix(labels):
    tns = dendropy.TaxonNamespace()
    m = dendropy.DnaCharacterMatrix(taxon_namespace=tns)
    for i, lab in enumerate(labels):
        m[tns.new_taxon(lab)] = "ACGT"[i % 4] * 2
    return m


def make_dst(kw):
    ns = dendropy.TaxonNamespace(DST_PRESETS[choose(kw["dst"], len(DST_PRESETS))], is_case_sensitive=True if kw["dst_case"] else False)
    return ns


def norm(ns, label):
    if label is None:
        return None
    return label if ns.is_case_sensitive else label.lower()


def check_tree_in(tree, ns, what):
    if tree.taxon_namespace is not ns:
        return what + ":member-refers-to-another-namespace"
    for nd in tg.reachable(tree):
        if nd.taxon is not None and nd.taxon not in ns:
            return what + ":node-taxon-not-a-member-of-the-namespace"
    return None


def check_unified(trees, ns, expected_label_sets, what):
    """migration by label: equal labels (under the namespace's rule) on one taxon, different
    labels on different taxa, nothing dropped or merged"""
    seen = {}
    for tree, exp in zip(trees, expected_label_sets):
        got = sorted(norm(ns, tg.leaf_label(nd)) for nd in tg.reachable(tree) if not nd._child_nodes and nd.taxon is not None)
        if got != sorted(norm(ns, x) for x in exp):
            return what + ":leaf-labels-changed-by-migration"
        for nd in tg.reachable(tree):
            if nd.taxon is None:
                continue
            key = norm(ns, nd.taxon.label)
            if key in seen and seen[key] is not nd.taxon:
                return what + ":equal-labels-on-different-taxa"
            seen[key] = nd.taxon
    # no duplicate members created for one label
    counts = {}
    for t in ns:
        counts[norm(ns, t.label)] = counts.get(norm(ns, t.label), 0) + 1
    for key in seen:
        if counts.get(key, 0) != 1:
            return what + ":label-present-%d-times-in-namespace" % counts.get(key, 0)
    return None


TL_OPS = ["append", "insert", "extend_list", "extend_treelist", "iadd", "add", "setitem", "setslice_list", "setslice_treelist", "read", "new_tree",
          "tree_migrate", "tree_migrate_memo", "constructor"]


@with_signature(SPEC)
def c11_treelist(kw):
    op = kw["op"]
    dst = make_dst(kw)
    tl = dendropy.TreeList(taxon_namespace=dst)
    l0, l1 = source_labels(kw, 0), source_labels(kw, 1)
    base = source_tree(l0)
    tl.append(base)                     # the list already holds a migrated tree
    exp = [l0]
    migrate = True
    strategy = "migrate"
    if op in ("append", "insert") and kw["strategy"]:
        strategy, migrate = "add", False
    t1 = source_tree(l1)
    if op == "append":
        tl.append(t1, taxon_import_strategy=strategy)
        exp.append(l1)
    elif op == "insert":
        tl.insert(choose(kw["pos"], 2), t1, taxon_import_strategy=strategy)
        exp = [l0, l1] if tl[1] is t1 else [l1, l0]
    elif op == "extend_list":
        tl.extend([t1, source_tree(source_labels(kw, 2))])
        exp += [l1, source_labels(kw, 2)]
    elif op in ("extend_treelist", "iadd", "add"):
        other = dendropy.TreeList(taxon_namespace=t1.taxon_namespace)
        other.append(t1)
        if op == "extend_treelist":
            tl.extend(other)
        elif op == "iadd":
            tl += other
        else:
            tl = tl + other
            dst = tl.taxon_namespace
        exp.append(l1)
        # the argument list keeps a consistent namespace of its own
        r = check_tree_in(other[0], other.taxon_namespace, "argument-list")
        if r:
            return r
    elif op == "setitem":
        tl[0] = t1
        exp = [l1]
        r = check_tree_in(base, dst, "replaced-tree")
        if r:
            return r
    elif op in ("setslice_list", "setslice_treelist"):
        t2 = source_tree(source_labels(kw, 2))
        if op == "setslice_list":
            tl[0:1] = [t1, t2]
        else:
            other = dendropy.TreeList(taxon_namespace=t1.taxon_namespace)
            other.append(t1)
            other.append(dendropy.Tree(t1))
            tl[0:1] = other
        exp = [l1, source_labels(kw, 2)] if op == "setslice_list" else [l1, l1]
    elif op == "read":
        text = "((%s,%s),%s);" % tuple(l1)
        tl.read(file=SymStream(text), schema="newick", case_sensitive_taxon_labels=dst.is_case_sensitive)
        exp.append(l1)
    elif op == "new_tree":
        t = tl.new_tree()
        exp.append([])
        try:
            tl.new_tree(taxon_namespace=dendropy.TaxonNamespace())
            return "new_tree-accepted-foreign-namespace"
        except TypeError:
            pass
    elif op in ("tree_migrate", "tree_migrate_memo"):
        memo = None
        if op == "tree_migrate_memo":
            # caller-supplied mapping onto taxa that are not yet members of the destination
            memo = {}
            for t in t1.taxon_namespace:
                if choose(kw["memo"], 2):
                    memo[t] = Taxon(label=t.label + "_m")
            t1.migrate_taxon_namespace(dst, taxon_mapping_memo=memo)
            r = check_tree_in(t1, dst, "migrated-tree")
            return r or True
        t1.migrate_taxon_namespace(dst)
        tl.append(t1)
        exp.append(l1)
    elif op == "constructor":
        tl2 = dendropy.TreeList([t1, source_tree(source_labels(kw, 2))], taxon_namespace=dst)
        for t in tl2:
            r = check_tree_in(t, dst, "constructed-list")
            if r:
                return r
        return check_unified(list(tl2), dst, [l1, source_labels(kw, 2)], "constructed-list") or True
    else:
        raise Fail("harness:op")
    if tl.taxon_namespace is not dst:
        return "list-changed-its-namespace"
    for t in tl:
        r = check_tree_in(t, dst, "list-member")
        if r:
            return r
    if migrate:
        r = check_unified(list(tl), dst, exp, "list")
        if r:
            return r
    # a tree removed from the list keeps a consistent namespace of its own
    if len(tl) > 1 and choose(kw["op2"], 2):
        gone = tl.pop()
        r = check_tree_in(gone, gone.taxon_namespace, "removed-tree")
        if r:
            return r
    return True


DS_OPS = ["add_unify", "add_unify_target", "migrate_then_unify", "attach_new", "read_attached", "read_nexml_two_otus", "matrix_migrate", "matrix_reconstruct", "matrix_new_sequence"]


@with_signature(SPEC)
def c11_dataset(kw):
    op = kw["op"]
    l0, l1 = source_labels(kw, 0), source_labels(kw, 1)
    ds = dendropy.DataSet()
    tl = dendropy.TreeList(taxon_namespace=dendropy.TaxonNamespace())
    tl.append(source_tree(l0))
    m = source_matrix(l1)
    if op in ("add_unify", "add_unify_target", "migrate_then_unify"):
        if op != "migrate_then_unify" and choose(kw["memo"], 2):
            # a data set whose components already share one namespace (as after reading a single file)
            m.migrate_taxon_namespace(tl.taxon_namespace)
            l1 = [t.label for t in m]       # (the shared source namespace is case-insensitive: labels as they are now)
        ds.add(tl)
        ds.add(m)
        if op == "migrate_then_unify":
            # a component moved to a namespace the data set has not registered
            tl.migrate_taxon_namespace(dendropy.TaxonNamespace(["a"]))
            ds.taxon_namespaces.clear()
            ds.add_taxon_namespace(m.taxon_namespace)
        target = make_dst(kw) if op == "add_unify_target" else None
        ds.unify_taxon_namespaces(target)
        ns = ds.attached_taxon_namespace
        if ns is None or (target is not None and ns is not target):
            return "unify-did-not-attach-the-namespace"
        if tl.taxon_namespace is not ns or m.taxon_namespace is not ns:
            return "component-outside-the-unified-namespace"
        r = check_tree_in(tl[0], ns, "dataset-tree")
        if r:
            return r
        for t in m:
            if t not in ns:
                return "sequence-taxon-not-a-member-of-the-namespace"
        # equal labels -> one taxon across tree list and matrix
        seen = {}
        for nd in tg.reachable(tl[0]):
            if nd.taxon is not None:
                seen[norm(ns, nd.taxon.label)] = nd.taxon
        for t in m:
            k = norm(ns, t.label)
            if k in seen and seen[k] is not t:
                return "equal-labels-on-different-taxa-after-unify"
        if sorted(norm(ns, t.label) for t in m) != sorted(norm(ns, x) for x in l1):
            return "sequences-dropped-or-merged"
        return True
    if op == "attach_new":
        ns = make_dst(kw)
        ds.attach_taxon_namespace(ns)
        a = ds.new_tree_list()
        mtype = ["dna", dendropy.DnaCharacterMatrix, "standard", dendropy.ProteinCharacterMatrix, "continuous"][choose(kw["sel"], 5)]
        b = ds.new_char_matrix(mtype)
        if a.taxon_namespace is not ns or b.taxon_namespace is not ns:
            return "new-component-outside-the-attached-namespace"
        if len(ds.taxon_namespaces) != 1 or ds.taxon_namespaces[0] is not ns:
            return "attached-dataset-gained-a-namespace"
        b.new_sequence(ns.require_taxon(label=l0[0]))
        for t in b:
            if t not in ns:
                return "sequence-taxon-outside-the-attached-namespace"
        try:
            ds.new_tree_list(taxon_namespace=dendropy.TaxonNamespace())
            return "attached-dataset-accepted-foreign-namespace"
        except TypeError:
            pass
        return True
    if op == "read_attached":
        ns = make_dst(kw)
        ds.attach_taxon_namespace(ns)
        ds.read(file=SymStream("((%s,%s),%s);" % tuple(l0)), schema="newick", case_sensitive_taxon_labels=ns.is_case_sensitive)
        ds.read(file=SymStream("(%s,(%s,%s));" % tuple(l1)), schema="newick", case_sensitive_taxon_labels=ns.is_case_sensitive)
        trees = [t for x in ds.tree_lists for t in x]
        for x in ds.tree_lists:
            if x.taxon_namespace is not ns:
                return "read-component-outside-the-attached-namespace"
        for t in trees:
            r = check_tree_in(t, ns, "read-tree")
            if r:
                return r
        return check_unified(trees, ns, [l0, l1], "read") or True
    if op == "read_nexml_two_otus":
        # one NeXML document with two <otus> blocks (labels equal / case variants / overlapping / disjoint), read
        # into a single namespace: by TreeList.get, or by a data set with that namespace attached
        src = dendropy.DataSet()
        tl2 = dendropy.TreeList(taxon_namespace=dendropy.TaxonNamespace())
        tl2.append(source_tree(l1))
        src.add(tl)
        src.add(tl2)
        text = src.as_string(schema="nexml")
        ns = make_dst(kw)
        if choose(kw["memo"], 2):
            got = dendropy.DataSet()
            got.attach_taxon_namespace(ns)
            got.read(data=text, schema="nexml", case_sensitive_taxon_labels=ns.is_case_sensitive)
            lists = list(got.tree_lists)
            trees = [t for x in lists for t in x]
        else:
            lists = [dendropy.TreeList.get(data=text, schema="nexml", taxon_namespace=ns, case_sensitive_taxon_labels=ns.is_case_sensitive)]
            trees = list(lists[0])
        if len(trees) != 2:
            return "nexml-read:number-of-trees"
        for x in lists:
            if x.taxon_namespace is not ns:
                return "read-component-outside-the-attached-namespace"
        for t in trees:
            r = check_tree_in(t, ns, "read-tree")
            if r:
                return r
        return check_unified(trees, ns, [l0, l1], "read") or True
    ns = make_dst(kw)
    if op == "matrix_migrate":
        m.migrate_taxon_namespace(ns)
    elif op == "matrix_reconstruct":
        m._taxon_namespace = ns
        m.reconstruct_taxon_namespace()
    else:
        m.migrate_taxon_namespace(ns)
        t = ns.new_taxon("zz")
        m.new_sequence(t, "AC")
        try:
            m.new_sequence(Taxon(label="foreign"), "AC")
            return "new_sequence-accepted-a-taxon-outside-the-namespace"
        except ValueError:
            pass
    if m.taxon_namespace is not ns:
        return "matrix-refers-to-another-namespace"
    for t in m:
        if t not in ns:
            return "sequence-taxon-not-a-member-of-the-namespace"
    got = sorted(norm(ns, t.label) for t in m if t.label != "zz")
    if got != sorted(norm(ns, x) for x in l1):
        return "sequences-dropped-or-merged"
    counts = {}
    for t in ns:
        counts[norm(ns, t.label)] = counts.get(norm(ns, t.label), 0) + 1
    for k in got:
        if counts.get(k) != 1:
            return "label-present-%s-times-in-namespace" % counts.get(k)
    return True


def classify(inp):
    return inp.get("op", "")


BUDGET = dict(quick=220, thorough=900)


def harnesses(tier):
    common = dict(assumptions=["labels inside one source namespace are distinct ignoring case", "strategy 'add' keeps the source taxon objects (no unification by label is claimed for it)"],
                  outside=["DataSet with detached namespaces and foreign TaxonNamespaceMapping objects", "more than three source namespaces"], classify=classify)
    return [Harness("c11_treelist", "C11", c11_treelist, [dict(op=o, kind="treelist") for o in TL_OPS],
                    bounds=dict(sources="up to three foreign namespaces, each label set a symbolic choice among %r" % SRC_PRESETS,
                                destination="namespace pre-filled with one of %r, case-sensitive or not (symbolic)" % DST_PRESETS,
                                ops="%d container operations (one shard each), both import strategies, symbolic positions; optionally a removal afterwards" % len(TL_OPS)),
                    functions=["TreeList.append/insert/extend/__iadd__/__add__/__setitem__/read/new_tree/__init__", "TreeList._import_tree_to_taxon_namespace",
                               "Tree.migrate_taxon_namespace/reconstruct_taxon_namespace/update_taxon_namespace", "Tree._clone_from"], cost=3.0, **common),
            Harness("c11_dataset", "C11", c11_dataset, [dict(op=o, kind="dataset") for o in DS_OPS],
                    bounds=dict(sources="as c11_treelist", ops="%d DataSet / CharacterMatrix operations (one shard each)" % len(DS_OPS)),
                    functions=["DataSet.add/unify_taxon_namespaces/attach_taxon_namespace/new_tree_list/new_char_matrix/read", "CharacterMatrix.migrate_taxon_namespace/reconstruct_taxon_namespace/new_sequence",
                               "TreeList.migrate_taxon_namespace"], cost=2.0, **common)]
