"""C01 item 1 - Engine B: the bitmask kernels translated from their live source to z3 bit-vectors."""
import os
import subprocess
import tempfile
import time

import z3

from vlib.ast2smt import Translator, popcount_le1, eval_term
from vlib import treegen  # noqa: sets sys.path to the repo
from dendropy.datamodel.treemodel._bipartition import Bipartition
from dendropy.utility import bitprocessing


def _lcg(seed):
    x = (seed * 6364136223846793005 + 1442695040888963407) & ((1 << 64) - 1)
    while True:
        x = (x * 6364136223846793005 + 1442695040888963407) & ((1 << 64) - 1)
        yield x >> 11


class _B:
    """plain stand-in for a Bipartition (only the fields the kernels read)"""


def run(tier, seed):
    W = 16 if tier == "quick" else 64
    t0 = time.time()
    callees = {"Bipartition.is_compatible_bitmasks": Bipartition.is_compatible_bitmasks,
               "Bipartition.is_trivial_bitmask": Bipartition.is_trivial_bitmask,
               "Bipartition.normalize_bitmask": Bipartition.normalize_bitmask,
               "bitprocessing.least_significant_set_bit": bitprocessing.least_significant_set_bit,
               "self.is_compatible_with": Bipartition.is_compatible_with}
    T = Translator(W, callees)
    BW = T.BW
    m, m1, m2, fill = T.var("m"), T.var("m1"), T.var("m2"), T.var("fill")
    ls, sp, ols, osp, tl = T.var("leafset"), T.var("split"), T.var("o_leafset"), T.var("o_split"), T.var("tree_leafset")
    rooted = z3.Bool("rooted")
    rng = T.in_range(m, m1, m2, fill, ls, sp, ols, osp, tl)
    obligations = []   # (name, assumptions, claim)
    not_encoded = []
    lines = []

    def enc(name, thunk):
        try:
            return thunk()
        except NotImplementedError as e:
            not_encoded.append("%s: %s" % (name, e))
            return None

    lsb = enc("lsb", lambda: T.call(bitprocessing.least_significant_set_bit, dict(n=fill)))
    zero = z3.BitVecVal(0, BW)
    one = z3.BitVecVal(1, BW)
    if lsb is not None:
        obligations.append(("lsb: single bit of fill, nothing of fill below it",
                            z3.And(rng, fill != 0),
                            z3.And(lsb != 0, (lsb & fill) == lsb, (lsb & (lsb - 1)) == 0, (fill & (lsb - 1)) == 0)))
        N = lambda x: T.call(Bipartition.normalize_bitmask, dict(bitmask=x, fill_bitmask=fill, lowest_relevant_bit=lsb))
        n_m = enc("normalize_bitmask", lambda: N(m))
        if n_m is not None:
            A = z3.And(rng, fill != 0)
            obligations.append(("normalize_bitmask: result inside fill", A, (n_m & ~fill) == 0))
            obligations.append(("normalize_bitmask: lowest bit of fill is 0 in the result", A, (n_m & lsb) == 0))
            obligations.append(("normalize_bitmask: result is m or its complement within fill", A,
                                z3.Or(n_m == (m & fill), n_m == (~m & fill))))
            obligations.append(("normalize_bitmask: leaves masks without the lowest bit unchanged", z3.And(A, (m & lsb) == 0), n_m == (m & fill)))
            obligations.append(("normalize_bitmask: idempotent", A, N(n_m) == n_m))
            obligations.append(("normalize_bitmask: canonical (a mask and its complement normalise equally)", A, N(~m & fill) == n_m))
            # instance method normalize(lsb0) agrees with the static kernel
            inst = enc("Bipartition.normalize", lambda: T.call(Bipartition.normalize, dict(bitmask=m),
                       attrs={("self", "_lowest_relevant_bit"): lsb, ("self", "_tree_leafset_bitmask"): fill}))
            if inst is not None:
                obligations.append(("Bipartition.normalize(lsb0) == normalize_bitmask", A, inst == n_m))
            inst1 = enc("Bipartition.normalize lsb1", lambda: T.call(Bipartition.normalize, dict(bitmask=m, convention="lsb1"),
                        attrs={("self", "_lowest_relevant_bit"): lsb, ("self", "_tree_leafset_bitmask"): fill}))
            if inst1 is not None:
                obligations.append(("Bipartition.normalize(lsb1) is the complement of lsb0 within fill", A, inst1 == (~n_m & fill)))
    triv = enc("is_trivial_bitmask", lambda: T.call(Bipartition.is_trivial_bitmask, dict(bitmask=m, fill_bitmask=fill)))
    if triv is not None:
        obligations.append(("is_trivial_bitmask <=> at most one taxon on one side (popcount definition)", rng,
                            triv == z3.Or(popcount_le1(m & fill, BW), popcount_le1(~m & fill, BW))))
    comp = enc("is_compatible_bitmasks", lambda: T.call(Bipartition.is_compatible_bitmasks, dict(m1=m1, m2=m2, fill_bitmask=fill)))
    if comp is not None:
        a, b = m1 & fill, m2 & fill
        clade = z3.Or((a & b) == 0, (a & ~b) == 0, (b & ~a) == 0)
        A = z3.And(rng, fill != 0)
        obligations.append(("is_compatible_bitmasks <=> disjoint or nested (clade reading) on the masked sets", A, comp == clade))
        comp_sw = T.call(Bipartition.is_compatible_bitmasks, dict(m1=m2, m2=m1, fill_bitmask=fill))
        obligations.append(("is_compatible_bitmasks symmetric", A, comp == comp_sw))
        if lsb is not None:
            norm = z3.And((m1 & ~fill) == 0, (m2 & ~fill) == 0, (m1 & lsb) == 0, (m2 & lsb) == 0)
            four = z3.Or(clade, (a | b) == fill)
            obligations.append(("for masks normalised w.r.t. fill, clade compatibility == four-way split compatibility",
                                z3.And(A, norm), comp == four))
    # instance predicates with the object fields as free variables
    selfattrs = {("self", "_split_bitmask"): sp, ("self", "_leafset_bitmask"): ls, ("self", "_tree_leafset_bitmask"): tl,
                 ("self", "_is_rooted"): rooted, ("other", "_split_bitmask"): osp, ("other", "_leafset_bitmask"): ols}
    icw = enc("is_compatible_with", lambda: T.call(Bipartition.is_compatible_with, dict(other=("obj", "other")), attrs=selfattrs, kinds=dict(other="obj")))
    if icw is not None and comp is not None:
        ref = z3.substitute(comp, (m1, sp), (m2, osp), (fill, tl))
        obligations.append(("Bipartition.is_compatible_with(other) == kernel on the two split masks and the tree leafset", rng, icw == ref))
        icw_int = T.call(Bipartition.is_compatible_with, dict(other=osp), attrs=selfattrs, kinds=dict(other="int"))
        obligations.append(("Bipartition.is_compatible_with(int) == same kernel", rng, icw_int == ref))
        inc = enc("is_incompatible_with", lambda: T.call(Bipartition.is_incompatible_with, dict(other=("obj", "other")), attrs=selfattrs, kinds=dict(other="obj")))
        if inc is not None:
            obligations.append(("is_incompatible_with == not is_compatible_with", rng, inc == z3.Not(icw)))
    lnw = enc("is_leafset_nested_within", lambda: T.call(Bipartition.is_leafset_nested_within, dict(other=("obj", "other")), attrs=selfattrs, kinds=dict(other="obj")))
    if lnw is not None:
        obligations.append(("is_leafset_nested_within <=> leafset(self) subset of leafset(other) (leafsets inside the tree leafset)",
                            z3.And(rng, (ls & ~tl) == 0), lnw == ((ls & ~ols) == 0)))
    nw = enc("is_nested_within", lambda: T.call(Bipartition.is_nested_within, dict(other=("obj", "other")), attrs=selfattrs, kinds=dict(other="obj")))
    if nw is not None:
        obligations.append(("is_nested_within (rooted) <=> leafset(self) subset of leafset(other)",
                            z3.And(rng, rooted, (ls & ~tl) == 0), nw == ((ls & ~ols) == 0)))
        obligations.append(("is_nested_within (unrooted) <=> split(self) subset of split(other)",
                            z3.And(rng, z3.Not(rooted), (sp & ~tl) == 0), nw == ((sp & ~osp) == 0)))
    itr = enc("is_trivial", lambda: T.call(Bipartition.is_trivial, {}, attrs=selfattrs))
    if itr is not None and triv is not None:
        obligations.append(("Bipartition.is_trivial() == kernel on split mask and tree leafset", rng,
                            itr == z3.substitute(triv, (m, sp), (fill, tl))))

    # ---------------------------------------------------------------- translator validation
    gen = _lcg(seed + 1)
    mask = (1 << W) - 1
    mism = 0
    nval = 0
    samples = []
    fx = fixture_masks(W)
    pool = fx + [0, 1, 2, 3, mask, mask - 1, 1 << (W - 1)]
    for i in range(2000):
        if i < len(pool) * 2:
            a = pool[i % len(pool)]
            b = pool[(i * 7 + 3) % len(pool)]
            f = pool[(i * 5 + 1) % len(pool)] | (pool[i % len(pool)] if i % 3 else 0)
        else:
            a, b, f = next(gen) & mask, next(gen) & mask, next(gen) & mask
            if i % 4 == 0:
                a &= f
                b &= f
        if f == 0:
            f = 1
        asg = {m: a, m1: a, m2: b, fill: f}
        real_lsb = bitprocessing.least_significant_set_bit(f)
        checks = []
        if lsb is not None:
            checks.append(("lsb", eval_term(lsb, asg), real_lsb))
            if n_m is not None:
                checks.append(("normalize", eval_term(n_m, asg), Bipartition.normalize_bitmask(a, f, real_lsb)))
        if triv is not None:
            checks.append(("trivial", eval_term(triv, asg), bool(Bipartition.is_trivial_bitmask(a, f))))
        if comp is not None:
            checks.append(("compat", eval_term(comp, asg), bool(Bipartition.is_compatible_bitmasks(a, b, f))))
        if lnw is not None:
            o = _B()
            o._leafset_bitmask = b
            s = _B()
            s._leafset_bitmask = a & f
            s._tree_leafset_bitmask = f
            checks.append(("leafset_nested", eval_term(lnw, {ls: a & f, ols: b, tl: f, sp: 0, osp: 0, rooted: True}),
                           bool(Bipartition.is_leafset_nested_within(s, o))))
        for nm, got, exp in checks:
            nval += 1
            if got != exp:
                mism += 1
                lines.append("HARNESS-ERROR property=C01 translator mismatch on %s: m=%d m2=%d fill=%d term=%r real=%r" % (nm, a, b, f, got, exp))
        if i < 3:
            samples.append(dict(m=a, m2=b, fill=f))

    # ---------------------------------------------------------------- discharge
    discharged = 0
    results = []
    viol = 0
    solver_s = 0.0
    inconclusive = 0
    for name, assum, claim in obligations:
        s = z3.Solver()
        s.set("timeout", 120000)
        s.add(assum, z3.Not(claim))
        q0 = time.time()
        r = str(s.check())
        dt = time.time() - q0
        solver_s += dt
        entry = dict(obligation=name, result=r, seconds=round(dt, 3))
        if r == "unsat":
            discharged += 1
            if tier == "thorough":
                c5 = cvc5_check(s, name)
                entry["cvc5"] = c5
                if c5 == "sat":
                    lines.append("HARNESS-ERROR property=C01 solvers disagree on obligation %r (z3 unsat, cvc5 sat)" % name)
                    mism += 1
        elif r == "sat":
            mdl = s.model()
            cex = {str(d): mdl[d].as_long() if z3.is_bv(mdl[d]) else z3.is_true(mdl[d]) for d in mdl.decls()}
            entry["model"] = cex
            if replay_obligation(name, cex, W):
                viol += 1
                rp = os.path.join(os.path.dirname(os.path.dirname(os.path.abspath(__file__))), "evidence", "replays",
                                  "c01_kernel-%d.json" % viol)
                os.makedirs(os.path.dirname(rp), exist_ok=True)
                import json
                with open(rp, "w") as f:
                    json.dump(dict(property="C01", harness="engine_b", obligation=name, model=cex), f, indent=1)
                lines.append("VIOLATION property=C01 replay=%s" % rp)
                lines.append("  engine_b obligation=%r model=%s" % (name, cex))
            else:
                lines.append("HARNESS-ERROR property=C01 obligation %r: solver model does not reproduce on the real function: %s" % (name, cex))
                mism += 1
        else:
            inconclusive += 1
        results.append(entry)
    for ne in not_encoded:
        lines.append("C01 engine_b: NOT ENCODED (inconclusive) %s" % ne)
    lines.append("C01 engine_b: %d/%d obligations discharged (unsat) at mask width %d, %d violated, %d inconclusive, %d not encoded; "
                 "translator validated on %d concrete evaluations; z3 %.2fs" %
                 (discharged, len(obligations), W, viol, inconclusive, len(not_encoded), nval, solver_s))
    ev = dict(obligations=len(obligations), discharged=discharged, all_discharged=(discharged == len(obligations) and not not_encoded),
              mask_width=W, bitvector_width=BW, functions_encoded=sorted(set(T.encoded)), not_encoded=not_encoded,
              translator_validation_evaluations=nval, translator_mismatches=mism, solver_seconds=round(solver_s, 3),
              results=results, samples=samples, wall_s=round(time.time() - t0, 2))
    code = 1 if viol else (2 if mism else 0)
    return ev, lines, code


def fixture_masks(W):
    """split masks of a few trees from the repository's own test data"""
    import dendropy
    out = set()
    base = os.path.join(os.environ.get("VERIF_REPO_SRC", "/repo/src"), "..", "tests", "data", "trees")
    for fn in ("pythonidae.mle.nex", "dendropy-test-trees-n10-unrooted-treeshapes.nex"):
        p = os.path.join(base, fn)
        if not os.path.exists(p):
            continue
        try:
            tl = dendropy.TreeList.get(path=p, schema="nexus")
            for t in tl[:3]:
                for b in t.encode_bipartitions():
                    out.add(b.split_bitmask & ((1 << W) - 1))
                    out.add(b.leafset_bitmask & ((1 << W) - 1))
        except Exception:
            pass
    return sorted(out)[:200]


def replay_obligation(name, cex, W):
    """Re-evaluates a violated obligation on the real Python functions."""
    g = lambda k: int(cex.get(k, 0))
    f = g("fill")
    try:
        if name.startswith("lsb"):
            l = bitprocessing.least_significant_set_bit(f)
            return not (l != 0 and (l & f) == l and (l & (l - 1)) == 0 and (f & (l - 1)) == 0)
        if name.startswith("normalize_bitmask") or name.startswith("Bipartition.normalize"):
            l = lowest(f)
            N = lambda x: Bipartition.normalize_bitmask(x, f, l)
            m = g("m")
            n = N(m)
            if "inside fill" in name:
                return (n & ~f) != 0
            if "lowest bit" in name:
                return (n & l) != 0
            if "complement within fill" in name and "lsb1" not in name:
                return not (n == (m & f) or n == (~m & f))
            if "unchanged" in name:
                return n != (m & f)
            if "idempotent" in name:
                return N(n) != n
            if "canonical" in name:
                return N(~m & f) != n
            b = _B()
            b._lowest_relevant_bit = bitprocessing.least_significant_set_bit(f)
            b._tree_leafset_bitmask = f
            if "lsb1" in name:
                return Bipartition.normalize(b, m, "lsb1") != (~Bipartition.normalize(b, m, "lsb0") & f)
            return Bipartition.normalize(b, m) != Bipartition.normalize_bitmask(m, f, lowest(f))
        if name.startswith("is_trivial_bitmask"):
            m = g("m")
            pc = lambda x: bin(x & ((1 << (W + 2)) - 1)).count("1")
            return bool(Bipartition.is_trivial_bitmask(m, f)) != (pc(m & f) <= 1 or pc(~m & f) <= 1)
        if name.startswith("is_compatible_bitmasks") or name.startswith("for masks normalised"):
            a, b = g("m1") & f, g("m2") & f
            clade = (a & b) == 0 or (a & ~b) == 0 or (b & ~a) == 0
            r = bool(Bipartition.is_compatible_bitmasks(g("m1"), g("m2"), f))
            if "symmetric" in name:
                return r != bool(Bipartition.is_compatible_bitmasks(g("m2"), g("m1"), f))
            if name.startswith("for masks"):
                return r != (clade or (a | b) == f)
            return r != clade
        s, o = _B(), _B()
        s._split_bitmask, s._leafset_bitmask, s._tree_leafset_bitmask = g("split"), g("leafset"), g("tree_leafset")
        s._is_rooted = bool(cex.get("rooted", False))
        o._split_bitmask, o._leafset_bitmask = g("o_split"), g("o_leafset")
        if name.startswith("Bipartition.is_compatible_with(other)"):
            return bool(Bipartition.is_compatible_with(s, o)) != bool(Bipartition.is_compatible_bitmasks(s._split_bitmask, o._split_bitmask, s._tree_leafset_bitmask))
        if name.startswith("Bipartition.is_compatible_with(int)"):
            return bool(Bipartition.is_compatible_with(s, o._split_bitmask)) != bool(Bipartition.is_compatible_bitmasks(s._split_bitmask, o._split_bitmask, s._tree_leafset_bitmask))
        if name.startswith("is_leafset_nested_within"):
            return bool(Bipartition.is_leafset_nested_within(s, o)) != ((s._leafset_bitmask & ~o._leafset_bitmask) == 0)
        if name.startswith("is_nested_within (rooted)"):
            return bool(Bipartition.is_nested_within(s, o)) != ((s._leafset_bitmask & ~o._leafset_bitmask) == 0)
        if name.startswith("is_nested_within (unrooted)"):
            return bool(Bipartition.is_nested_within(s, o)) != ((s._split_bitmask & ~o._split_bitmask) == 0)
        if name.startswith("is_incompatible_with"):
            return bool(Bipartition.is_incompatible_with(s, o)) != (not Bipartition.is_compatible_with(s, o))
        if name.startswith("Bipartition.is_trivial"):
            return bool(Bipartition.is_trivial(s)) != bool(Bipartition.is_trivial_bitmask(s._split_bitmask, s._tree_leafset_bitmask))
    except Exception:
        return True
    return True


def lowest(x):
    b = 1
    while b <= x:
        if x & b:
            return b
        b <<= 1
    return 0


def cvc5_check(solver, name):
    """cross-check an unsat obligation with the cvc5 binary (QF_BV); returns 'unsat'/'sat'/'unknown'/'error'"""
    smt = "(set-logic QF_BV)\n" + solver.to_smt2()
    d = os.path.join(os.path.dirname(os.path.dirname(os.path.abspath(__file__))), "scratch")
    os.makedirs(d, exist_ok=True)
    fd, p = tempfile.mkstemp(suffix=".smt2", dir=d)
    try:
        with os.fdopen(fd, "w") as f:
            f.write(smt)
        r = subprocess.run(["cvc5", "--tlimit=120000", p], capture_output=True, text=True, timeout=150)
        out = (r.stdout + r.stderr).strip()
        if "(error" in out or "error" in out.lower():
            return "error"
        first = out.splitlines()[0] if out else "unknown"
        return first if first in ("sat", "unsat", "unknown") else "unknown"
    except Exception:
        return "error"
    finally:
        try:
            os.remove(p)
        except OSError:
            pass
