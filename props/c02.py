"""C02 - trees survive a write/read round trip through Newick, NEXUS and NeXML."""
import io

import dendropy
from dendropy.dataio import nexusprocessing
from dendropy.dataio.nexusprocessing import NexusTokenizer

from vlib.driver import Harness, assume, choose, Fail, with_signature
from vlib import treegen as tg
from vlib.symenv import Sink, SymStream

MAXN = 7
# labels that stress quoting, in-label delimiters, case folding and non-ASCII letters
POOL = ["a", "B", "a b", "a_b", "it's", "x=y", "back\\slash", "(", "c,d", "e:f", "[g]", "semi;", "été", "tab\tbed",
        "q\"uote", "1", "2", "+-*/<>`", "'", "''x", "h(i)", "_", "a  b"]

POOL2 = ["x", "1", "2", "A b", "b"]
LENPOOL = [0, 0.0, 2.5e-3, 1e-10, 123456.75, 3, 1e+20]

SPEC_LABEL = [("s", str), ("preserve_spaces", bool), ("quote_underscores", bool), ("preserve_underscores", bool), ("L", int), ("regex", str)]

DEFAULT_RE = r'''[()[\]{}\\\/,;:=*'"`+\-<>\0\t\n]'''


def tree_tag_regex():
    """the protect_regex the Newick writer uses for node tags, read from the live source"""
    import inspect
    import re
    from dendropy.dataio import newickwriter
    src = inspect.getsource(newickwriter.NewickWriter._render_node_tag)
    m = re.search(r"protect_regex=r'''(.*?)'''", src)
    return m.group(1) if m else DEFAULT_RE


@with_signature(SPEC_LABEL)
def c02_label_rule(kw):
    """escape_nexus_token followed by the NEXUS tokenizer is the identity on labels"""
    s = kw["s"]
    L = kw["L"]
    assume(len(s) >= 1)
    assume(len(s) <= L)
    for ch in s:
        assume(ch in ALPHABET)
    assume(s[0] not in " \t")
    assume(s[len(s) - 1] not in " \t")
    ps = True if kw["preserve_spaces"] else False
    qu = True if kw["quote_underscores"] else False
    pu = not qu      # the consistent pair: unquoted_underscores (= not quote_underscores) / preserve_underscores
    regex = DEFAULT_RE if kw["regex"] == "default" else tree_tag_regex()
    tok = nexusprocessing.escape_nexus_token(s, preserve_spaces=ps, quote_underscores=qu, protect_regex=regex)
    tz = NexusTokenizer(SymStream(tok + ";"), preserve_unquoted_underscores=pu)
    toks = []
    for t in tz:
        toks.append(t)
        if len(toks) > 4:
            break
    if len(toks) != 2 or toks[1] != ";":
        return "label-token-splits-or-merges"
    if toks[0] != s:
        return "label-changed-by-round-trip"
    return True


ALPHABET = "aB1 _'\"()[]{},;:=\\/*+-<>`\t.é"


# ------------------------------------------------------------------------------------------ trees

SPEC_TREE = ([("lab%d" % i, int) for i in range(MAXN)] + [("il%d" % i, int) for i in range(MAXN)] +
             [("l%d" % i, int) for i in range(MAXN)] + [("lm%d" % i, int) for i in range(MAXN)] +
             [("rooting", int), ("ntrees", int), ("opt_ps", bool), ("opt_uu", bool), ("opt_translate", bool), ("opt_suppress_rooting", bool),
              ("w", int), ("opt_weights", bool), ("shape", list), ("schema", str), ("npool", int), ("aspect", str)])


def make_tree(kw, tns, labels, shape, aspect):
    parents = list(shape)
    n = len(parents) + 1
    lengths = [None] * n
    ilab = 0
    rooting = None
    if aspect == "structure":
        # number <-> text conversion is a C boundary (float(str)), so lengths are concrete per path:
        # one symbolic pattern for all edges (none / integers / floats incl. scientific notation /
        # every other edge only) with one symbolic choice of the base value
        m = choose(kw["lm0"], 4)
        base = LENPOOL[choose(kw["l0"], len(LENPOOL))] if m == 2 else 1.5
        for i in range(n):
            if m == 0 or (m == 3 and i % 2 == 0):
                continue
            lengths[i] = (i + 1) if m == 1 else base * (i + 1)
        ilab = choose(kw["il0"], 3)
        rooting = [None, True, False][choose(kw["rooting"], 3)]
    tree, nodes = tg.build(parents, lengths, rooted=True, tns=tns, labels=labels)
    for i, nd in enumerate(nodes):
        if nd._child_nodes and ilab:
            nd.label = ["", "n%d" % i, "in=t%d" % i][ilab]
    tree.is_rooted = rooting
    return tree, nodes


def structure(tree):
    def rec(nd):
        return (nd.taxon.label if nd.taxon is not None else None, nd.label if nd._child_nodes else None,
                nd._edge.length, [rec(c) for c in nd._child_nodes])
    return rec(tree.seed_node)


def same_structure(a, b):
    if a[0] != b[0]:
        return "taxon-label-differs"
    if (a[1] or None) != (b[1] or None):
        return "internal-node-label-differs"
    la, lb = a[2], b[2]
    if (la is None) != (lb is None):
        return "edge-length-presence-differs"
    if la is not None and la != lb:
        return "edge-length-differs"
    if len(a[3]) != len(b[3]):
        return "topology-differs"
    for x, y in zip(a[3], b[3]):
        r = same_structure(x, y)
        if r is not None:
            return r
    return None


@with_signature(SPEC_TREE)
def c02_tree_roundtrip(kw):
    schema = kw["schema"]
    shape = list(kw["shape"])
    aspect = kw["aspect"]
    nleaves = sum(1 for i in range(len(shape) + 1) if i not in shape)
    if aspect == "labels":
        # first leaf: a pool label (one shard each); second leaf: a symbolic choice from a small
        # pool that collides with TRANSLATE tokens and case variants; the rest plain
        l0 = POOL[kw["lab0"]]
        l1 = POOL2[choose(kw["lab1"], len(POOL2))]
        assume(l0.lower() != l1.lower())
        labels = [l0, l1] + ["p", "q", "r"][:nleaves - 2]
    else:
        labels = ["A", "b", "c d", "e_f"][:nleaves]
    tns = dendropy.TaxonNamespace()
    if aspect == "labels" and kw["opt_weights"]:
        labels = list(reversed(labels))      # namespace order differs from tree order
    trees = dendropy.TreeList(taxon_namespace=tns)
    first, _ = make_tree(kw, tns, labels, shape, aspect)
    trees.append(first)
    ntrees = 1
    if aspect == "structure":
        ntrees = 1 + choose(kw["ntrees"], 2)
        if ntrees == 2:
            t2, _ = tg.build([0] * (nleaves), None, rooted=True, tns=tns, labels=labels)
            t2.seed_node._child_nodes = t2.seed_node._child_nodes[:nleaves]
            t2.is_rooted = first.is_rooted
            trees.append(t2)
    ps = uu = False
    if aspect == "labels":
        ps = True if kw["opt_ps"] else False
        uu = True if kw["opt_uu"] else False
    wopts = dict(preserve_spaces=ps, unquoted_underscores=uu)
    ropts = dict(preserve_underscores=uu)
    if aspect == "structure" and kw["opt_suppress_rooting"]:
        assume(first.is_rooted is not None)
        wopts["suppress_rooting"] = True
        ropts["rooting"] = "force-rooted" if first.is_rooted else "force-unrooted"
    weights = aspect == "structure" and kw["opt_weights"]
    if weights:
        w = [1, 3, 0.25][choose(kw["w"], 3)]
        first.weight = w
        wopts["store_tree_weights"] = True
        ropts["store_tree_weights"] = True
    if schema == "nexus" and kw["opt_translate"]:
        wopts["translate_tree_taxa"] = True
    # without preserve_spaces, blanks become underscores that the reader turns back into blanks -
    # unless underscores are to be preserved: that option pair is not consistent for labels with blanks
    if uu and not ps:
        for lab in labels:
            assume(" " not in lab)
    sink = Sink()
    trees.write(file=sink, schema=schema, **wopts)
    text = sink.getvalue()
    back = dendropy.TreeList.get(file=SymStream(text), schema=schema, **ropts)
    if len(back) != len(trees):
        return "number-of-trees-differs"
    for a, b in zip(trees, back):
        r = same_structure(structure(a), structure(b))
        if r is not None:
            return r
        if a.is_rooted is not None and a.is_rooted != b.is_rooted:
            return "rooting-state-differs"
        if a.is_rooted is None and b.is_rooted is not None and "rooting" not in ropts:
            return "undefined-rooting-became-defined"
    if weights and back[0].weight != first.weight:
        return "tree-weight-differs"
    got = [t.label for t in back.taxon_namespace]
    if schema == "nexus":
        if got != [t.label for t in tns]:
            return "namespace-labels-or-order-differ"
    elif sorted(got) != sorted(t.label for t in tns):
        return "namespace-labels-differ"
    return True


@with_signature(SPEC_TREE)
def c02_nexml_roundtrip(kw):
    """NeXML: the text is concrete where the XML parser (C) reads it; labels from the pool"""
    shape = list(kw["shape"])
    nleaves = sum(1 for i in range(len(shape) + 1) if i not in shape)
    l0 = NEXML_POOL[kw["lab0"]]
    l1 = NEXML_POOL[choose(kw["lab1"], len(NEXML_POOL))]
    assume(l0 != l1)
    labels = [l0, l1] + ["p", "q"][:nleaves - 2]
    parents = shape
    n = len(parents) + 1
    m = choose(kw["lm0"], 4)    # none / 0 and 1 alternating / 2.5e-3 everywhere / every other edge only
    lengths = [None] * n
    for i in range(n):
        if m == 1:
            lengths[i] = i % 2
        elif m == 2:
            lengths[i] = 2.5e-3
        elif m == 3 and i % 2:
            lengths[i] = 1.5
    tns = dendropy.TaxonNamespace()
    tree, nodes = tg.build(parents, lengths, rooted=True, tns=tns, labels=labels)
    for i, nd in enumerate(nodes):
        if nd._child_nodes and kw["opt_ps"]:
            nd.label = "n<%d>" % i
    tree.is_rooted = [None, True, False][choose(kw["rooting"], 3)]
    trees = dendropy.TreeList([tree], taxon_namespace=tns)
    out = io.StringIO()
    trees.write(file=out, schema="nexml")
    back = dendropy.TreeList.get(data=out.getvalue(), schema="nexml")
    if len(back) != 1:
        return "number-of-trees-differs"
    a, b = structure(tree), structure(back[0])
    # forced normalisations: root edge length None -> 0, undefined rooting -> unrooted
    if a[2] is None and (b[2] is None or b[2] == 0):
        a = (a[0], a[1], b[2], a[3])
    r = same_structure(a, b)
    if r is not None:
        return "nexml:" + r
    exp_rooted = bool(tree.is_rooted)
    if bool(back[0].is_rooted) != exp_rooted:
        return "nexml:rooting-state-differs"
    if [t.label for t in back.taxon_namespace] != [t.label for t in tns]:
        return "nexml:namespace-labels-or-order-differ"
    return True


NEXML_POOL = ["a", "a b", "a_b", "it's", "q\"uote", "<tag>", "amp&ersand", "été", "(", "x=y"]


def classify(inp):
    if "s" in inp and inp.get("s"):
        return "label-rule"
    labs = []
    pool = NEXML_POOL if inp.get("schema") == "nexml" else POOL
    for k in range(MAXN):
        v = inp.get("lab%d" % k)
        if isinstance(v, int) and 0 <= v < len(pool):
            labs.append(pool[v])
    if any(l in ("(", ")", ",", ":", ";", "'") for l in labs):
        return "label-is-a-single-structural-character"
    return inp.get("schema", "")


BUDGET = dict(quick=240, thorough=900)


def harnesses(tier):
    q = tier == "quick"
    L = 3 if q else 4
    common = dict(assumptions=["labels: non-empty, no leading/trailing whitespace, pairwise distinct ignoring case",
                               "streams: Sink/SymStream (pure-Python write/read(1))"],
                  outside=["control characters and Unicode whitespace in labels", "metadata annotations", "float formatting beyond repr/float of quarter-integers"],
                  classify=classify)
    hs = [Harness("c02_label_rule", "C02", c02_label_rule,
                  [dict(L=L, regex=r, preserve_spaces=ps, quote_underscores=qu) for r in ("default", "tree") for ps in (False, True) for qu in (False, True)],
                  bounds=dict(label="symbolic string of 1..%d characters over %r" % (L, ALPHABET),
                              options="preserve_spaces x quote_underscores (one shard each), reader preserve_underscores = not quote_underscores; both protect_regex variants: TAXLABELS default and the tree-statement one (read from the live source)"),
                  functions=["nexusprocessing.escape_nexus_token", "NexusTokenizer.__next__", "Tokenizer._skip_to_significant_char/_handle_comment"],
                  cost=3.0, path_timeout=15.0, **common)]
    shapes = [v for n in range(2, (5 if q else 6) + 1) for v in tg.all_parent_vectors(n)
              if tg.shape_ok(v, min_leaves=2, max_leaves=3, allow_unifurcations=(n <= 4))]
    shapes = tg.unordered_representatives(shapes)
    npool = len(POOL)
    lshapes = [v for v in shapes if len(v) in (2, 4)][:2]
    tshards = [dict(shape=v, schema=s, npool=npool, lab0=l0, aspect="labels") for v in lshapes for s in ("newick", "nexus") for l0 in range(npool)]
    tshards += [dict(shape=v, schema=s, npool=npool, aspect="structure") for v in shapes for s in ("newick", "nexus")]
    hs.append(Harness("c02_tree_roundtrip", "C02", c02_tree_roundtrip, tshards,
                      bounds=dict(shapes="%d unordered shapes, 2..3 leaves" % len(shapes), labels="aspect 'labels': first leaf one of %d adversarial pool labels (one shard each), second a symbolic choice from %r, namespace order as the tree or reversed; aspect 'structure': plain labels" % (npool, POOL2),
                                  lengths="aspect 'structure': none / integers / multiples of a symbolic choice from %r / on every other edge only (concrete per path: float<->text is a C boundary)" % LENPOOL, rooting="None / True / False",
                                  options="preserve_spaces, unquoted_underscores+preserve_underscores, suppress_rooting with explicit reader rooting, store_tree_weights with a symbolic choice of weight, translate_tree_taxa (NEXUS): symbolic",
                                  trees="tree lists of 1..2 trees", internal_labels="none / plain / containing '='"),
                      functions=["NewickWriter._write_tree/_render_node_tag", "NexusWriter._write/_write_trees_block/_set_and_write_translate_block", "NewickReader._parse_tree_statement/_parse_tree_node_description",
                                 "NexusReader._parse_nexus_stream/_parse_taxa_block/_parse_trees_block", "NexusTaxonSymbolMapper"],
                      cost=5.0, path_timeout=10.0, **common))
    nshapes = shapes[:4] if q else shapes
    hs.append(Harness("c02_nexml_roundtrip", "C02", c02_nexml_roundtrip, [dict(shape=v, schema="nexml", npool=len(NEXML_POOL), lab0=l0, aspect="nexml") for v in nshapes for l0 in range(len(NEXML_POOL))],
                      bounds=dict(shapes="%d shapes" % len(nshapes), labels="first leaf one of %r (one shard each), second a symbolic choice from the same pool" % NEXML_POOL, lengths="four patterns incl. missing lengths on some or all edges", rooting="None/True/False", internal_labels="none / containing < and >"),
                      functions=["NexmlWriter._write_tree_list/_write_node/_write_edge", "nexmlreader._NexmlTreeParser"], cost=2.0, **common))
    return hs
