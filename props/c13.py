"""C13 - all ways of reading the same source deliver the same data."""
import io
import os
import tempfile

import dendropy

from vlib.driver import Harness, assume, choose, Fail, with_signature
from vlib import treegen as tg

BODIES = ["((a:1,b:2):0.5,(c:3,d:4):1.5)", "(a,(b,(c,d)x)y)", "((a,b),c,d)", "(d:1e-2,(c,(b,a)))", "((3,1),(2,4))", "(4:2,3:1,(2,1))"]
ROOT_TOK = ["", "[&R] ", "[&U] "]
WEIGHT_TOK = ["", "[&W 2] ", "[&W 0.5] ", "[&W 0] "]
COMMENT_TOK = ["", "[a note] ", "[&k=1,m=\"v\"] "]
TAXA = ["a", "b", "c", "d"]
TRANSLATE = " TRANSLATE 1 d, 2 c, 3 b, 4 a;\n"

SPEC = ([("body%d" % i, int) for i in range(3)] + [("rt%d" % i, int) for i in range(3)] + [("wt%d" % i, int) for i in range(3)] +
        [("ct%d" % i, int) for i in range(3)] + [("tr%d" % i, bool) for i in range(2)] + [("split", int)] +
        [("ntrees", int), ("rooting_opt", int), ("o_weights", bool), ("o_meta", bool), ("o_under", bool), ("prepop", bool),
         ("schema", str), ("route", str), ("numeric", bool), ("aspect", int), ("own_ns", bool)])


ASPECTS = ["rooting", "weights", "comments", "taxa"]


def statement(kw, i, numeric, aspect, varied):
    """one statement carries the varied aspect; the others are plain"""
    if i != varied:
        return BODIES[(i + 1) % 4]
    nb = len(BODIES) if numeric else 4
    b = BODIES[choose(kw["body0"], nb if aspect == "taxa" else 2)]
    rt = ROOT_TOK[choose(kw["rt0"], 3)] if aspect == "rooting" else ""
    wt = WEIGHT_TOK[choose(kw["wt0"], len(WEIGHT_TOK))] if aspect == "weights" else ""
    ct = COMMENT_TOK[choose(kw["ct0"], 3)] if aspect == "comments" else ""
    return rt + wt + ct + b


def make_document(kw, aspect):
    schema = kw["schema"]
    ntrees = 1 + kw["ntrees"]
    numeric = True if kw["numeric"] else False
    varied = ntrees - 1 if aspect == "taxa" else 0   # a numeral-labelled tree must be able to sit in a later block
    stmts = [statement(kw, i, numeric, aspect, varied) for i in range(ntrees)]
    if schema in ("newick", "nexml"):
        return ";\n".join(stmts) + ";\n", ntrees, [ntrees]
    # nexus: trees distributed over one or two TREES blocks, each with or without TRANSLATE
    if aspect == "taxa":
        split = choose(kw["split"], ntrees + 1)       # trees [0:split] in block 1, rest in block 2 (if any)
        tr = [True if kw["tr0"] else False, True if kw["tr1"] else False]
    else:
        split, tr = ntrees, [False, False]
    sizes = [s for s in (split, ntrees - split) if s > 0]
    doc = "#NEXUS\nBEGIN TAXA;\n DIMENSIONS NTAX=4;\n TAXLABELS a b c d;\nEND;\n"
    k = 0
    for bi, size in enumerate(sizes):
        doc += "BEGIN TREES;\n"
        if tr[bi]:
            doc += TRANSLATE
        for j in range(size):
            doc += " TREE t%d = %s;\n" % (k, stmts[k])
            k += 1
        doc += "END;\n"
    return doc, ntrees, sizes


def reader_options(kw, aspect):
    opts = {}
    if aspect == "rooting":
        r = choose(kw["rooting_opt"], 4)
        if r:
            opts["rooting"] = ["", "force-rooted", "force-unrooted", "default-rooted"][r]
    if aspect == "weights" and kw["o_weights"]:
        opts["store_tree_weights"] = True
    if aspect == "comments" and kw["o_meta"]:
        opts["extract_comment_metadata"] = True
    return opts


def describe(tree):
    def rec(nd):
        return (nd.taxon.label if nd.taxon is not None else None, nd.label, nd._edge.length,
                sorted((a.name, str(a.value)) for a in nd.annotations), list(nd.comments), [rec(c) for c in nd._child_nodes])
    return (rec(tree.seed_node), tree.is_rooted, tree.weight, tree.label, list(tree.comments),
            sorted((a.name, str(a.value)) for a in tree.annotations))


def taxa_of(tree):
    return [id(nd.taxon) for nd in tg.reachable(tree) if nd.taxon is not None]


def compare(base, other, what, shared_ns):
    if len(base) != len(other):
        return "%s:number-of-trees-differs" % what
    for a, b in zip(base, other):
        da, db = describe(a), describe(b)
        if da != db:
            for i, nm in enumerate(("structure/labels/lengths/annotations", "rooting", "weight", "label", "comments", "tree-annotations")):
                if da[i] != db[i]:
                    return "%s:%s-differs" % (what, nm)
        if shared_ns and taxa_of(a) != taxa_of(b):
            return "%s:not-the-same-taxon-objects" % what
    return None


@with_signature(SPEC)
def c13_routes(kw):
    schema = kw["schema"]
    route = kw["route"]
    aspect = ASPECTS[choose(kw["aspect"], len(ASPECTS))]
    doc, ntrees, sizes = make_document(kw, aspect)
    opts = reader_options(kw, aspect)
    if schema == "nexml":
        # the NeXML document is the NeXML rendering of the same trees
        tmp = dendropy.TreeList.get(data=doc, schema="newick")
        doc = tmp.as_string(schema="nexml")
        opts = {}
        rschema = "nexml"
        sizes = [ntrees]
    else:
        rschema = schema
    def fresh_ns():
        ns = dendropy.TaxonNamespace()
        if aspect == "taxa" and schema != "nexml" and kw["prepop"]:
            # a namespace already populated by an earlier call (NEXUS refuses taxa beyond NTAX)
            ns.new_taxa(["d"] if schema == "nexus" else ["zz", "d"])
        return ns
    tns = fresh_ns()
    base = dendropy.TreeList.get(data=doc, schema=rschema, taxon_namespace=tns, **opts)
    base_labels = [t.label for t in tns]
    # the route under test reads either into the namespace the reference read has filled
    # (same taxon objects expected) or into an identically prepared namespace of its own
    # (same labels in the same order expected)
    shared = True
    if aspect == "taxa" and kw["own_ns"]:
        shared = False
        tns = fresh_ns()
    if len(base) != ntrees:
        return "treelist-get:unexpected-number-of-trees"
    if route == "tree_get":
        # one tree selected by collection and tree offset
        for ci, size in enumerate(sizes):
            for ti in range(size):
                t = dendropy.Tree.get(data=doc, schema=rschema, taxon_namespace=tns, collection_offset=ci, tree_offset=ti, **opts)
                r = compare([base[sum(sizes[:ci]) + ti]], [t], "Tree.get(%d,%d)" % (ci, ti), shared)
                if r is not None:
                    return r
        return True
    if route == "list_read":
        tl = dendropy.TreeList(taxon_namespace=tns)
        tl.read(data=doc, schema=rschema, **opts)
        allbase = all_collections(doc, rschema, tns, opts, sizes) if shared else list(base)
        return compare(base, allbase, "TreeList.get(collection_offset=i)", shared) or compare(allbase, tl, "TreeList.read", shared) or _ns_check(tns, base_labels, shared) or True
    if route == "yield":
        got = list(dendropy.Tree.yield_from_files([io.StringIO(doc)], schema=rschema, taxon_namespace=tns, **opts))
        allbase = all_collections(doc, rschema, tns, opts, sizes) if shared else list(base)
        return compare(allbase, got, "Tree.yield_from_files", shared) or _ns_check(tns, base_labels, shared) or True
    if route == "dataset":
        ds = dendropy.DataSet.get(data=doc, schema=rschema, taxon_namespace=tns, **opts)
        got = [t for tl in ds.tree_lists for t in tl]
        allbase = all_collections(doc, rschema, tns, opts, sizes) if shared else list(base)
        return compare(allbase, got, "DataSet.get", shared) or _ns_check(tns, base_labels, shared) or True
    if route == "tree_array":
        allbase = all_collections(doc, rschema, tns, opts, sizes) if shared else list(base)
        rooted = [t.is_rooted for t in allbase]
        assume(all(r == rooted[0] for r in rooted))
        use_w = bool(opts.get("store_tree_weights"))
        ta = dendropy.TreeArray(taxon_namespace=tns, is_rooted_trees=rooted[0], use_tree_weights=use_w)
        ta.read(data=doc, schema=rschema, **opts)
        ref = dendropy.TreeArray(taxon_namespace=(tns if shared else base.taxon_namespace), is_rooted_trees=rooted[0], use_tree_weights=use_w)
        for t in allbase:
            ref.add_tree(t)
        if len(ta) != len(ref):
            return "TreeArray.read:number-of-trees-differs"
        if ta._tree_split_bitmasks != ref._tree_split_bitmasks:
            return "TreeArray.read:splits-differ"
        if ta._tree_edge_lengths != ref._tree_edge_lengths:
            return "TreeArray.read:edge-lengths-differ"
        if ta._tree_weights != ref._tree_weights:
            return "TreeArray.read:weights-differ"
        # ... and the weights are those of the list (not only those of an array filled through the same add_tree)
        if use_w and [float(w) for w in ta._tree_weights] != [float(t.weight) if t.weight is not None else 1.0 for t in allbase]:
            return "TreeArray.read:weights-differ-from-the-tree-list"
        return True
    if route == "sources":
        d = os.path.join(os.path.dirname(os.path.dirname(os.path.abspath(__file__))), "scratch")
        os.makedirs(d, exist_ok=True)
        fd, path = tempfile.mkstemp(suffix=".txt", dir=d)
        try:
            with os.fdopen(fd, "w") as f:
                f.write(doc)
            a = dendropy.TreeList.get(file=io.StringIO(doc), schema=rschema, taxon_namespace=tns, **opts)
            b = dendropy.TreeList.get(path=path, schema=rschema, taxon_namespace=tns, **opts)
        finally:
            os.remove(path)
        return compare(base, a, "file=", shared) or compare(base, b, "path=", shared) or True
    raise Fail("harness:route")


def _ns_check(tns, base_labels, shared):
    if [t.label for t in tns] != base_labels:
        return "namespace-labels-differ-between-routes"
    return None


def all_collections(doc, rschema, tns, opts, sizes):
    out = []
    for ci in range(len(sizes)):
        out.extend(dendropy.TreeList.get(data=doc, schema=rschema, taxon_namespace=tns, collection_offset=ci, **opts))
    return out


MATRIX_DOC = ("#NEXUS\nBEGIN TAXA;\n DIMENSIONS NTAX=3;\n TAXLABELS a b c;\nEND;\nBEGIN CHARACTERS;\n DIMENSIONS NCHAR=%d;\n"
              " FORMAT DATATYPE=DNA GAP=- MISSING=?;\n MATRIX\n%s ;\nEND;\nBEGIN TREES;\n TREE t = (a,(b,c));\nEND;\n")

SPEC_M = [("c%d_%d" % (t, j), int) for t in range(3) for j in range(3)] + [("nchar", int), ("schema", str)]


@with_signature(SPEC_M)
def c13_matrix(kw):
    """a character matrix read on its own equals the matrix inside the data set read from the same text"""
    nchar = 1 + choose(kw["nchar"], 3)
    syms = "ACGT-?RN"
    rows = ""
    for t, lab in enumerate("abc"):
        if t == 0:
            seq = "".join(syms[choose(kw["c0_%d" % j], len(syms))] for j in range(nchar))
        else:
            seq = "".join(syms[(t + 3 * j) % len(syms)] for j in range(nchar))
        rows += " %s %s\n" % (lab, seq)
    doc = MATRIX_DOC % (nchar, rows)
    m = dendropy.DnaCharacterMatrix.get(data=doc, schema="nexus")
    ds = dendropy.DataSet.get(data=doc, schema="nexus")
    m2 = ds.char_matrices[0]
    if [t.label for t in m] != [t.label for t in m2]:
        return "matrix:taxa-differ"
    for t in m:
        if m[t].symbols_as_string() != m2[m2.taxon_namespace.get_taxon(t.label)].symbols_as_string():
            return "matrix:sequences-differ"
    m3 = dendropy.DnaCharacterMatrix.get(file=io.StringIO(doc), schema="nexus")
    for t in m:
        if m[t].symbols_as_string() != m3[m3.taxon_namespace.get_taxon(t.label)].symbols_as_string():
            return "matrix:file-route-differs"
    return True


# ---- a document that carries a matrix, character sets and trees: the tree routes skip what the data-set route parses
MIX_TAXA = "BEGIN TAXA;\n DIMENSIONS NTAX=3;\n TAXLABELS a b c;\nEND;\n"
MIX_CHARS = "BEGIN CHARACTERS;\n DIMENSIONS NCHAR=4;\n FORMAT DATATYPE=DNA GAP=- MISSING=?;\n MATRIX\n a AC-T\n b A?GT\n c ACGT\n ;\nEND;\n"
MIX_CHARSETS = ["1-2", "ALL", "1 3", "2-.", "1-4\\2", "3"]
MIX_BODIES = ["(a:1e-2,(b:0.5,c:1):2)", "(a:-0.5,(b:1E-3,c:1):2e-1)", "((a,b)0.5,c)", "(a,b,c)"]
MIX_NAMES = ["t1", "t-1", "'t 1'"]
SPEC_X = [("cs0", int), ("cs1", int), ("ncs", int), ("body0", int), ("body1", int), ("name", int), ("order", int), ("o_nolen", bool), ("kind", str)]


@with_signature(SPEC_X)
def c13_mixed(kw):
    ncs = choose(kw["ncs"], 3)
    sets = "BEGIN SETS;\n" + "".join(" CHARSET s%d = %s;\n" % (i, MIX_CHARSETS[choose(kw["cs%d" % i], len(MIX_CHARSETS))]) for i in range(ncs)) + "END;\n"
    trees = "BEGIN TREES;\n TREE %s = %s;\n TREE u = %s;\nEND;\n" % (
        MIX_NAMES[choose(kw["name"], len(MIX_NAMES))], MIX_BODIES[choose(kw["body0"], len(MIX_BODIES))], MIX_BODIES[choose(kw["body1"], 2)])
    order = choose(kw["order"], 3)
    blocks = [[MIX_CHARS, sets, trees], [trees, MIX_CHARS, sets], [MIX_CHARS, trees, sets]][order]
    doc = "#NEXUS\n" + MIX_TAXA + "".join(blocks)
    opts = {}
    if kw["o_nolen"]:
        opts["suppress_edge_lengths"] = True
    tns = dendropy.TaxonNamespace()
    base = dendropy.TreeList.get(data=doc, schema="nexus", taxon_namespace=tns, **opts)
    if len(base) != 2:
        return "treelist-get:unexpected-number-of-trees"
    ds = dendropy.DataSet.get(data=doc, schema="nexus", taxon_namespace=tns, **opts)
    r = compare(base, [t for tl in ds.tree_lists for t in tl], "DataSet.get", True)
    if r is not None:
        return r
    r = compare(base, list(dendropy.Tree.yield_from_files([io.StringIO(doc)], schema="nexus", taxon_namespace=tns, **opts)), "Tree.yield_from_files", True)
    if r is not None:
        return r
    r = compare([base[1]], [dendropy.Tree.get(data=doc, schema="nexus", taxon_namespace=tns, tree_offset=1, **opts)], "Tree.get", True)
    if r is not None:
        return r
    m = dendropy.DnaCharacterMatrix.get(data=doc, schema="nexus", taxon_namespace=tns)
    if len(ds.char_matrices) != 1:
        return "dataset:number-of-matrices"
    m2 = ds.char_matrices[0]
    for t in tns:
        if m[t].symbols_as_string() != m2[t].symbols_as_string():
            return "matrix:sequences-differ"
    if sorted(m.character_subsets.keys()) != sorted(m2.character_subsets.keys()):
        return "matrix:character-subsets-differ"
    for k in m.character_subsets:
        if list(m.character_subsets[k].character_indices) != list(m2.character_subsets[k].character_indices):
            return "matrix:character-subset-columns-differ"
    if [t.label for t in tns] != ["a", "b", "c"]:
        return "namespace-labels-differ-between-routes"
    return True


def classify(inp):
    return "%s:%s" % (inp.get("schema"), inp.get("route"))


BUDGET = dict(quick=240, thorough=900)
ROUTES = ["tree_get", "list_read", "yield", "dataset", "tree_array", "sources"]


def harnesses(tier):
    q = tier == "quick"
    shards = []
    for schema in ("newick", "nexus", "nexml"):
        for route in ROUTES:
            for nt in ((0, 1) if q else (0, 1, 2)):
                for numeric in ((False, True) if schema != "nexml" else (False,)):
                    shards.append(dict(schema=schema, route=route, ntrees=nt, numeric=numeric))
    common = dict(assumptions=["documents are assembled from the stated fragments (concrete text per path)"],
                  outside=["url=", "gzip", "documents outside the generator grammar"], classify=classify)
    return [Harness("c13_routes", "C13", c13_routes, shards,
                    bounds=dict(documents="Newick / NEXUS (TAXA + 1..2 TREES blocks, TRANSLATE per block or not, reversed translation table) / NeXML; 1..%d tree statements; the first carries one varied aspect per path (rooting token x reader rooting option / weight token x store_tree_weights / plain or metadata comment x extract_comment_metadata / body incl. numeral labels x populated namespace x TRANSLATE per block x split over blocks), the others are plain" % (2 if q else 3),
                                routes="Tree.get(collection_offset, tree_offset), TreeList.read, Tree.yield_from_files, DataSet.get, TreeArray.read, data=/file=/path= - each compared with TreeList.get"),
                    functions=["TreeList.get", "Tree.get", "TreeList.read", "Tree.yield_from_files", "TreeArray.read", "DataSet.get", "NewickTreeDataYielder", "NexusTreeDataYielder", "NexmlTreeDataYielder",
                               "NewickReader", "NexusReader", "NexmlReader", "Deserializable._get_from"], cost=5.0, path_timeout=10.0, **common),
            Harness("c13_matrix", "C13", c13_matrix, [dict(schema="nexus", nchar=n) for n in ((0, 1) if q else (0, 1, 2))],
                    bounds=dict(matrix="3 taxa x 1..%d DNA characters; first row: each cell a symbolic choice among ACGT-?RN, other rows fixed" % (2 if q else 3)),
                    functions=["CharacterMatrix.get", "DataSet.get", "NexusReader._parse_characters_data_block"], cost=1.0, **common),
            Harness("c13_mixed", "C13", c13_mixed, [dict(kind="mixed", order=o, ncs=n) for o in range(3) for n in range(3)],
                    bounds=dict(document="NEXUS with TAXA, CHARACTERS (3x4 DNA), SETS (0..2 CHARSET statements, each a symbolic choice of %d position forms incl. ALL, ranges, '.', stride) and TREES (2 statements: symbolic choice of %d bodies with exponent / negative lengths / internal labels, %d tree names incl. hyphenated and quoted), in 3 block orders" % (len(MIX_CHARSETS), len(MIX_BODIES), len(MIX_NAMES)),
                                routes="TreeList.get vs DataSet.get / Tree.yield_from_files / Tree.get; CharacterMatrix.get vs the data set's matrix (cells and character subsets)", options="suppress_edge_lengths symbolic"),
                    functions=["NexusReader._parse_sets_block/_parse_charset_statement/_parse_positions", "NexusReader._parse_tree_statement", "NexusTreeDataYielder", "DataSet.get", "TreeList.get", "CharacterMatrix.get"],
                    cost=1.0, **common)]
