"""C01 - bipartition encoding is exact, canonical and sufficient to rebuild the topology."""
import dendropy
from dendropy.datamodel.treemodel import Tree, Node, Bipartition

from vlib.driver import Harness, assume, choose, Fail, with_signature
from vlib import treegen as tg
from vlib.symenv import SymRng
from props import c01_kernels

NB = 8      # accession indices available
MAXL = 6    # max leaves


def engine_b(tier, seed):
    return c01_kernels.run(tier, seed)


SPEC = ([("i%d" % k, int) for k in range(MAXL)] + [("d%d" % k, int) for k in range(10)] +
        [("rooted", bool), ("f_sup", bool), ("f_col", bool), ("f_nostore", bool), ("f_mut", bool), ("ns_mode", int), ("t1", int), ("t2", int), ("f_x", bool),
         ("shape", list), ("shape2", list), ("nbits", int), ("stale", int)])


def make_ns(nbits):
    return dendropy.TaxonNamespace(["t%d" % i for i in range(nbits)])


def assign_bits(kw, nleaves, nbits):
    """symbolic, pairwise distinct accession indices for the leaves"""
    idx = []
    avail = list(range(nbits))
    for k in range(nleaves):
        # k-th leaf takes the j-th of the indices still unused (no duplicate can arise)
        idx.append(avail.pop(choose(kw["i%d" % k], len(avail))))
    return idx


def assign_bits_skip(kw, nleaves):
    """ascending accession indices 0..nleaves with one symbolic index skipped (covers a lowest
    bit that is absent from the tree, and gaps); needs nleaves + 1 bits"""
    skip = choose(kw["i0"], nleaves + 1)
    return [i for i in range(nleaves + 1) if i != skip]


def assign_bits_rot(kw, nleaves):
    r = choose(kw["i0"], nleaves)
    return [(k + r) % nleaves for k in range(nleaves)]


def build_with_bits(parents, idx, tns, rooted, taxa):
    tree, nodes = tg.build(parents, None, rooted=rooted, tns=tns, leaf_taxa=False)
    leaves = [nd for nd in nodes if not nd._child_nodes]
    for nd, i in zip(leaves, idx):
        nd.taxon = taxa[i]
    return tree, nodes, leaves


def perturb_namespace(tns, taxa, used, mode):
    """namespaces larger than the leaf set / with removed taxa / sorted or reversed"""
    if mode == 1:
        for i, t in enumerate(taxa):
            if i not in used:
                tns.remove_taxon(t)
    elif mode == 2:
        tns.reverse()
    elif mode == 3:
        for i, t in enumerate(taxa):
            if i not in used:
                tns.remove_taxon(t)
        tns.sort(key=lambda t: t.label, reverse=True)
        tns.new_taxon("zz")


def bits_below(nd, bit_of):
    m = 0
    stack = [nd]
    while stack:
        x = stack.pop()
        if not x._child_nodes:
            if x.taxon is not None:
                m |= bit_of[id(x.taxon)]
        else:
            stack.extend(x._child_nodes)
    return m


@with_signature(SPEC)
def c01_encode(kw):
    parents = list(kw["shape"])
    nbits = kw["nbits"]
    rooted = True if kw["rooted"] else False
    sup = True if kw["f_sup"] else False
    col = True if kw["f_col"] else False
    nleaves = sum(1 for i in range(len(parents) + 1) if i not in parents)
    idx = assign_bits(kw, nleaves, nbits)
    tns = make_ns(nbits)
    taxa = list(tns)
    tree, nodes, leaves = build_with_bits(parents, idx, tns, rooted, taxa)
    perturb_namespace(tns, taxa, idx, kw["ns_mode"])
    bit_of = {}
    for i, t in enumerate(taxa):
        bit_of[id(t)] = 1 << i
    nostore = True if kw["f_nostore"] else False
    mut = True if kw["f_mut"] else False
    enc = tree.encode_bipartitions(suppress_unifurcations=sup, collapse_unrooted_basal_bifurcation=col,
                                   suppress_storage=nostore, is_bipartitions_mutable=mut)
    wf = tg.wellformed(tree)
    if wf is not None:
        return wf
    live = tg.reachable(tree)
    full = bits_below(tree.seed_node, bit_of)
    exp_full = 0
    for i in idx:
        exp_full |= 1 << i
    if full != exp_full:
        return "encode-changed-the-leaf-taxa"
    if nostore:
        if enc is not None or tree.bipartition_encoding is not None:
            return "suppress-storage-stored-an-encoding"
    elif len(enc) != len(live):
        return "encoding-length-differs-from-number-of-edges"
    seen = set()
    for nd in live:
        b = nd._edge._bipartition
        if b is None:
            return "edge-without-bipartition"
        ls = bits_below(nd, bit_of)
        if b.leafset_bitmask != ls:
            return "leafset-bitmask-wrong"
        if b.split_bitmask != tg.expected_split(ls, full, rooted):
            return "split-bitmask-wrong"
        if b.tree_leafset_bitmask != full:
            return "tree-leafset-bitmask-wrong"
        seen.add(id(b))
        if sup and len(nd._child_nodes) == 1:
            return "unifurcation-not-suppressed"
        if b.is_mutable != mut:
            return "bipartition-mutability-not-as-requested"
    if nostore:
        return True
    if mut:
        # mutable bipartitions are unhashable by design: the edge maps are only defined for immutable encodings
        return True if [id(b) for b in enc] == [id(nd._edge._bipartition) for nd in tree.postorder_node_iter()] else "encoding-list-is-not-the-edges-bipartitions"
    if set(id(b) for b in enc) != seen:
        return "encoding-list-is-not-the-edges-bipartitions"
    sbem = tree.split_bitmask_edge_map
    for nd in live:
        e = sbem.get(nd._edge._bipartition.split_bitmask)
        if e is None or e._bipartition.split_bitmask != nd._edge._bipartition.split_bitmask:
            return "split-bitmask-edge-map-wrong"
    # namespace-level masks agree with the accession indices
    for i in idx:
        if tns.taxon_bitmask(taxa[i]) != (1 << i):
            return "taxon-bitmask-not-1<<accession-index"
    return True


def splitset(tree):
    return set(b.split_bitmask for b in tree.encode_bipartitions())


@with_signature(SPEC)
def c01_iff(kw):
    """equal split sets <=> same (un)rooted topology, for two trees over the same leaves"""
    p1, p2 = list(kw["shape"]), list(kw["shape2"])
    nbits = kw["nbits"]
    rooted = True if kw["rooted"] else False
    nl = sum(1 for i in range(len(p1) + 1) if i not in p1)
    idx = assign_bits_skip(kw, nl)
    tns = make_ns(nbits)
    taxa = list(tns)
    t1, n1, l1 = build_with_bits(p1, idx, tns, rooted, taxa)
    # second tree: same taxa in a symbolic permutation over its leaves
    perm = list(idx)
    SymRng(ints=[kw["d%d" % k] for k in range(10)]).shuffle(perm)
    t2, n2, l2 = build_with_bits(p2, perm, tns, rooted, taxa)
    if rooted:
        same_topo = tg.clades(t1) == tg.clades(t2)
    else:
        same_topo = tg.unrooted_splits(t1) == tg.unrooted_splits(t2)
    s1 = splitset(t1)
    s2 = splitset(t2)
    if same_topo and s1 != s2:
        return "same-topology-different-split-sets"
    if (not same_topo) and s1 == s2:
        return "different-topology-equal-split-sets"
    return True


@with_signature(SPEC)
def c01_redraw(kw):
    """child order, inserted unifurcations and (unrooted) seed position do not change the split set"""
    p1 = list(kw["shape"])
    nbits = kw["nbits"]
    rooted = True if kw["rooted"] else False
    nl = sum(1 for i in range(len(p1) + 1) if i not in p1)
    idx = assign_bits_skip(kw, nl)
    tns = make_ns(nbits)
    taxa = list(tns)
    t1, n1, l1 = build_with_bits(p1, idx, tns, rooted, taxa)
    t2, n2, l2 = build_with_bits(p1, idx, tns, rooted, taxa)
    rng = SymRng(ints=[kw["d%d" % k] for k in range(10)])
    # symbolic child permutation at one internal node
    internal = [nd for nd in n2 if nd._child_nodes]
    nd = internal[choose(kw["t1"], len(internal))]
    rng.shuffle(nd._child_nodes)
    mode = choose(kw["i1"], 3)
    # insert a unifurcation above a symbolic node
    if mode == 1:
        x = n2[choose(kw["t2"], len(n2))]
        if x._parent_node is not None:
            p = x._parent_node
            pos = p._child_nodes.index(x)
            u = Node()
            p._child_nodes[pos] = u
            u._parent_node = p
            x._parent_node = u
            u._child_nodes.append(x)
    if not rooted and mode == 2:
        cand = [x for x in tg.reachable(t2) if x._child_nodes]
        t2.reseed_at(cand[choose(kw["i2"], len(cand))], collapse_unrooted_basal_bifurcation=False,
                     suppress_unifurcations=False)
    if tg.wellformed(t2) is not None:
        raise Fail("harness:redraw-broke-the-tree")
    if splitset(t1) != splitset(t2):
        return "redrawing-changed-the-split-set"
    return True


@with_signature(SPEC)
def c01_rebuild(kw):
    """from_bipartition_encoding / from_split_bitmasks on the encoding in any order"""
    p1 = list(kw["shape"])
    rooted = True if kw["rooted"] else False
    nl = sum(1 for i in range(len(p1) + 1) if i not in p1)
    # the tree spans the whole namespace; the namespace optionally had one more taxon that was
    # removed again (symbolic position: accession indices are then not 0..n-1)
    if kw["f_col"]:
        idx = assign_bits_skip(kw, nl)
        tns = make_ns(nl + 1)
        taxa = list(tns)
        for i, t in enumerate(taxa):
            if i not in idx:
                tns.remove_taxon(t)
        r = choose(kw["i1"], nl)
        idx = [idx[(k + r) % nl] for k in range(nl)]
    else:
        idx = assign_bits_rot(kw, nl)
        tns = make_ns(nl)
        taxa = list(tns)
    t1, n1, l1 = build_with_bits(p1, idx, tns, rooted, taxa)
    enc = list(t1.encode_bipartitions())
    # the order of the non-trivial bipartitions is a symbolic permutation; the trivial ones
    # (ignored by the reconstruction) go in front or behind (symbolic)
    nontriv = [b for b in enc if not b.is_trivial()]
    triv = [b for b in enc if b.is_trivial()]
    SymRng(ints=[kw["d%d" % k] for k in range(10)]).shuffle(nontriv)
    enc = (triv + nontriv) if kw["f_sup"] else (nontriv + triv)
    if kw["f_x"]:
        t2 = Tree.from_bipartition_encoding(enc, tns, is_rooted=rooted)
    else:
        t2 = Tree.from_split_bitmasks([b.split_bitmask for b in enc], tns, is_rooted=rooted)
    wf = tg.wellformed(t2)
    if wf is not None:
        return wf
    if tg.leaf_labels(t2) != sorted(t.label for t in tns):
        return "rebuilt-tree-does-not-span-each-taxon-once"
    if rooted:
        if tg.clades(t1) != tg.clades(t2):
            return "rebuilt-rooted-topology-differs"
    elif tg.unrooted_splits(t1) != tg.unrooted_splits(t2):
        return "rebuilt-unrooted-topology-differs"
    if (t2.is_rooted is True) != rooted:
        return "rebuilt-rooting-state-differs"
    return True


@with_signature(SPEC)
def c01_predicates(kw):
    """predicates on real bipartitions of real trees vs the set definitions on leaf-label sets"""
    p1, p2 = list(kw["shape"]), list(kw["shape2"])
    nbits = kw["nbits"]
    rooted = True if kw["rooted"] else False
    nl = sum(1 for i in range(len(p1) + 1) if i not in p1)
    idx = [i for i in range(nl + 1) if i != (0 if kw["f_x"] else nl)]
    tns = make_ns(nbits)
    taxa = list(tns)
    t1, n1, l1 = build_with_bits(p1, idx, tns, rooted, taxa)
    stale = kw["stale"]
    r = 0 if stale else choose(kw["d0"], nl)
    perm = [idx[(k + r) % nl] for k in range(nl)]
    t2, n2, l2 = build_with_bits(p2, perm, tns, rooted, taxa)
    t1.encode_bipartitions(suppress_unifurcations=False, collapse_unrooted_basal_bifurcation=False)
    t2.encode_bipartitions(suppress_unifurcations=False, collapse_unrooted_basal_bifurcation=False)
    allset = tg.leafset(t1.seed_node)
    x = n1[0 if stale else choose(kw["t1"], len(n1))]
    y = n2[choose(kw["t2"], len(n2))]
    bx, by = x._edge._bipartition, y._edge._bipartition
    X, Y = tg.leafset(x), tg.leafset(y)
    # trivial: at most one taxon on one side
    if bx.is_trivial() != (len(X) <= 1 or len(allset - X) <= 1):
        return "is_trivial-disagrees-with-set-definition"
    # leafset nested
    if bx.is_leafset_nested_within(by) != X.issubset(Y):
        return "is_leafset_nested_within-disagrees"
    # compatibility of two bipartitions
    if rooted:
        comp = (not (X & Y)) or X.issubset(Y) or Y.issubset(X)
    else:
        Xc, Yc = allset - X, allset - Y
        comp = (not (X & Y)) or (not (X & Yc)) or (not (Xc & Y)) or (not (Xc & Yc))
    if bx.is_compatible_with(by) != comp:
        return "is_compatible_with-disagrees-with-set-definition"
    # compatibility with a whole tree: compatible with every bipartition of t1
    tree_comp = True
    for nd in n1:
        Z = tg.leafset(nd)
        if rooted:
            c = (not (Z & Y)) or Z.issubset(Y) or Y.issubset(Z)
        else:
            Zc, Yc = allset - Z, allset - Y
            c = (not (Z & Y)) or (not (Z & Yc)) or (not (Zc & Y)) or (not (Zc & Yc))
        if not c:
            tree_comp = False
    if t1.is_compatible_with_bipartition(by, is_bipartitions_updated=True) != tree_comp:
        return "is_compatible_with_bipartition-disagrees"
    # history: the encoding exists, the topology is then edited without updating it, and the
    # predicate is called with default arguments -> must reflect the current structure
    if stale:
        lv = [nd for nd in tg.reachable(t1) if not nd._child_nodes]
        a = lv[choose(kw["i1"], len(lv))]
        b = lv[choose(kw["i2"], len(lv))]
        a.taxon, b.taxon = b.taxon, a.taxon
        tree_comp = True
        for nd in tg.reachable(t1):
            Z = tg.leafset(nd)
            if rooted:
                c = (not (Z & Y)) or Z.issubset(Y) or Y.issubset(Z)
            else:
                Zc, Yc = allset - Z, allset - Y
                c = (not (Z & Y)) or (not (Z & Yc)) or (not (Zc & Y)) or (not (Zc & Yc))
            if not c:
                tree_comp = False
        if t1.is_compatible_with_bipartition(by) != tree_comp:
            return "is_compatible_with_bipartition-stale-after-edit"
    return True


def classify(inp):
    return "rooted" if inp.get("rooted") else "unrooted"


def _leaves(v):
    return sum(1 for i in range(len(v) + 1) if i not in v)


BUDGET = dict(quick=240, thorough=900)


def harnesses(tier):
    q = tier == "quick"
    nmax = 5 if q else 7
    nbits = 5       # (both tiers; all mask values are the business of Engine B)
    nmax_unif = 4 if q else 6
    shapes = [v for n in range(2, nmax + 1) for v in tg.ordered_representatives(tg.all_parent_vectors(n))
              if tg.shape_ok(v, min_leaves=2, max_leaves=(4 if q else 5), allow_unifurcations=(n <= nmax_unif))]
    shapes_nounif = [v for v in shapes if tg.shape_ok(v, allow_unifurcations=False, min_leaves=3)]
    common = dict(functions=["Tree.encode_bipartitions", "Bipartition.compile_split_bitmask", "Bipartition.normalize_bitmask",
                             "TaxonNamespace.taxon_bitmask", "Tree.split_bitmask_edge_map"],
                  assumptions=["leaf taxa have pairwise distinct accession indices below the stated bit count"],
                  outside=["masks wider / trees larger than the bound", "is_mutable waiver misuse"], classify=classify)
    hs = []
    hs.append(Harness("c01_encode", "C01", c01_encode,
                      [dict(shape=v, shape2=[], nbits=((nbits if _leaves(v) <= 2 else 4) if q else (nbits if _leaves(v) <= 2 else _leaves(v) + 1)), ns_mode=m)
                       for v in shapes for m in range(4)],
                      bounds=dict(shapes="every ordered shape with 2..%d nodes, 2..%d leaves (polytomies, stars, caterpillars; unifurcations up to %d nodes)" % (nmax, 4 if q else 5, nmax_unif),
                                  bits="each leaf taxon's accession index symbolic, pairwise distinct, in [0,%d) for two leaves, else in [0,%s)" % (nbits, "4" if q else "leaves+1"),
                                  namespace="as created / unused taxa removed / reversed / removed+sorted+extended (one shard each)",
                                  flags="rooting, suppress_unifurcations, collapse_unrooted_basal_bifurcation, suppress_storage, is_bipartitions_mutable symbolic"), cost=3.0, **common))
    pairs = [(a, b) for a in shapes_nounif for b in shapes_nounif if _leaves(a) == _leaves(b) and a <= b]
    hs.append(Harness("c01_iff", "C01", c01_iff,
                      [dict(shape=a, shape2=b, nbits=_leaves(a) + 1) for a, b in pairs],
                      bounds=dict(pairs="%d pairs of shapes without unifurcations, 3..%d leaves" % (len(pairs), 4 if q else 5),
                                  labelling="second tree's leaf labelling is a symbolic permutation (Fisher-Yates on symbolic draws)",
                                  bits="ascending accession indices in [0, leaves+1) with one symbolic index skipped"), cost=2.0, **common))
    hs.append(Harness("c01_redraw", "C01", c01_redraw,
                      [dict(shape=v, shape2=[], nbits=_leaves(v) + 1) for v in shapes_nounif],
                      bounds=dict(shapes="%d shapes" % len(shapes_nounif), redraw="symbolic child permutation at a symbolic node, optional unifurcation above a symbolic node, optional reseeding (unrooted)"),
                      **common))
    hs.append(Harness("c01_rebuild", "C01", c01_rebuild,
                      [dict(shape=v, shape2=[], nbits=_leaves(v)) for v in shapes_nounif],
                      bounds=dict(shapes="%d shapes, tree spans the whole namespace" % len(shapes_nounif), order="non-trivial bipartitions in a symbolic permutation, trivial ones in front or behind",
                                  route="from_bipartition_encoding / from_split_bitmasks (symbolic)"),
                      functions=["Tree.from_bipartition_encoding", "Tree.from_split_bitmasks", "Tree.encode_bipartitions"],
                      assumptions=common["assumptions"], outside=common["outside"], classify=classify))
    ppairs = [(a, b) for a in shapes_nounif for b in shapes_nounif if _leaves(a) == _leaves(b)]
    if q:
        ppairs = [(a, b) for (a, b) in ppairs if _leaves(a) <= 4]
    hs.append(Harness("c01_predicates", "C01", c01_predicates,
                      [dict(shape=a, shape2=b, nbits=_leaves(a) + 1) for a, b in ppairs],
                      bounds=dict(pairs="%d ordered pairs of shapes" % len(ppairs), nodes="symbolic node of each tree",
                                  labelling="symbolic rotation of the second tree's leaf labelling; lowest or highest accession index absent from the tree (symbolic)"), cost=2.0,
                      functions=["Bipartition.is_trivial", "Bipartition.is_leafset_nested_within", "Bipartition.is_compatible_with",
                                 "Tree.is_compatible_with_bipartition"],
                      assumptions=common["assumptions"], outside=common["outside"], classify=classify))
    st = [dict(shape=a, shape2=b, nbits=_leaves(a) + 1, stale=1) for a, b in ppairs if a <= b]
    hs.append(Harness("c01_compat_stale", "C01", c01_predicates, st,
                      bounds=dict(pairs="%d pairs of shapes" % len(st), history="encode; swap the taxa of two leaves (symbolic) without updating; is_compatible_with_bipartition with default arguments"),
                      functions=["Tree.is_compatible_with_bipartition", "Tree.encode_bipartitions"],
                      assumptions=common["assumptions"], outside=common["outside"], classify=classify))
    for h in hs:
        for sh in h.shards:
            sh.setdefault("stale", 0)
    return hs
