"""C09 - character matrices survive a round trip through NEXUS, PHYLIP, FASTA and NeXML."""
import io

import dendropy

from vlib.driver import Harness, assume, choose, Fail, with_signature

TYPES = {
    "dna": dendropy.DnaCharacterMatrix, "rna": dendropy.RnaCharacterMatrix, "nucleotide": dendropy.NucleotideCharacterMatrix,
    "protein": dendropy.ProteinCharacterMatrix, "standard": dendropy.StandardCharacterMatrix,
    "restriction": dendropy.RestrictionSitesCharacterMatrix, "infinite": dendropy.InfiniteSitesCharacterMatrix,
    "continuous": dendropy.ContinuousCharacterMatrix,
}
# formats that have a representation of the data type (NEXUS has no restriction / infinite-sites
# DATATYPE of its own; NeXML has no nucleotide / infinite-sites cell type)
SUPPORTED = {
    "nexus": ["dna", "rna", "nucleotide", "protein", "standard", "continuous"],
    "phylip": ["dna", "rna", "nucleotide", "protein", "standard", "restriction", "infinite"],
    "fasta": ["dna", "rna", "nucleotide", "protein", "standard", "restriction", "infinite"],
    "nexml": ["dna", "rna", "protein", "standard", "restriction", "continuous"],
}
CONT_POOL = [0.0, 1.0, -2.5, 3e-5, 1e10, 7]
LABELS = ["t1", "t 2", "t_3"]
QLABELS = ["plain", "it's", "a b", "a_b", "x=y", "semi;colon", "1"]

SPEC = ([("c%d_%d" % (t, j), int) for t in range(3) for j in range(3)] +
        [("ntax", int), ("nchar", int), ("route", int), ("strict", bool), ("interleaved", bool), ("qlab", int), ("longlen", int), ("wrap", bool),
         ("dtype", str), ("fmt", str), ("aspect", str)])


def symbols_of(dtype):
    if dtype == "continuous":
        return None
    sa = TYPES[dtype]().default_state_alphabet
    return [s.symbol for s in sa.state_iter() if s.symbol]


def make_matrix(kw, dtype, labels, ntax, nchar, syms, route):
    """the matrix content: first row symbolic choices over the type's full symbol set, the other
    rows a rotation of it; built along the chosen construction route"""
    cls = TYPES[dtype]
    rows = []
    for t in range(ntax):
        row = []
        for j in range(nchar):
            sym_cell = (t == 0 and j == 0)       # one fully symbolic cell; the rest rotates through the symbol set with it
            if dtype == "continuous":
                base = choose(kw["c0_0"], len(CONT_POOL))
                v = CONT_POOL[(base + t + 2 * j) % len(CONT_POOL)]
            else:
                base = choose(kw["c0_0"], len(syms))
                v = syms[(base + 5 * t + 3 * j) % len(syms)]
            row.append(v)
        rows.append(row)
    d = dict((labels[t], (rows[t] if dtype == "continuous" else "".join(rows[t]))) for t in range(ntax))
    if route == 0:
        m = cls.from_dict(d)
    elif route == 1:
        # parsed from (concrete) NEXUS text first, then written in the target format
        m0 = cls.from_dict(d)
        m = cls.get(data=m0.as_string("nexus"), schema="nexus") if dtype in SUPPORTED["nexus"] else m0
    elif route == 2:
        # concatenation of two single-namespace halves
        tns = dendropy.TaxonNamespace(labels[:ntax])
        cut = max(1, nchar // 2)
        a = cls.from_dict(dict((l, v[:cut]) for l, v in d.items()), taxon_namespace=tns)
        b = cls.from_dict(dict((l, v[cut:]) for l, v in d.items()), taxon_namespace=tns)
        m = cls.concatenate([a, b]) if nchar > 1 else a
    else:
        # exported from a wider matrix
        wide = cls.from_dict(dict((l, (list(v) + [v[0]]) if dtype == "continuous" else v + v[0]) for l, v in d.items()))
        m = wide.export_character_indices(range(nchar))
    return m, rows


def content(m, dtype):
    if dtype == "continuous":
        return [(t.label, [float(x) for x in m[t].values()]) for t in m]
    return [(t.label, m[t].symbols_as_string()) for t in m]


def same_content(a, b, dtype):
    if [x[0] for x in a] != [x[0] for x in b]:
        return "taxa-or-their-order-differ"
    for x, y in zip(a, b):
        if dtype == "continuous":
            if len(x[1]) != len(y[1]):
                return "sequence-length-differs"
            for u, v in zip(x[1], y[1]):
                if abs(u - v) > 1e-12 * (1 + abs(u)):
                    return "continuous-value-differs"
        elif x[1] != y[1]:
            return "sequence-differs"
    return None


@with_signature(SPEC)
def c09_roundtrip(kw):
    dtype, fmt = kw["dtype"], kw["fmt"]
    cls = TYPES[dtype]
    syms = symbols_of(dtype)
    ntax = 1 + choose(kw["ntax"], 3)
    nchar = 1 + choose(kw["nchar"], 3)
    route = choose(kw["route"], 4)
    labels = list(LABELS)
    wopts, ropts = {}, {}
    if fmt == "phylip":
        strict = True if kw["strict"] else False
        inter = True if kw["interleaved"] else False
        wopts["strict"] = strict
        ropts.update(strict=strict, interleaved=inter)
        labels = ["t1", "t2", "t3"] if strict else ["t1", "t_2", "tt3"]      # labels admissible for the variant
        if not strict:
            ropts["multispace_delimiter"] = False
    if fmt == "fasta":
        labels = ["t1", "t 2", "t_3"]
    m, rows = make_matrix(kw, dtype, labels, ntax, nchar, syms, route)
    before = content(m, dtype)
    text = m.as_string(fmt, **wopts)
    if fmt in ("phylip", "fasta") and dtype != "continuous":
        back = cls.get(data=text, schema=fmt, **ropts)
    else:
        back = cls.get(data=text, schema=fmt, **ropts)
    r = same_content(before, content(back, dtype), dtype)
    if r is not None:
        return r
    if content(m, dtype) != before:
        return "writing-altered-the-matrix"
    return True


@with_signature(SPEC)
def c09_long_sequences(kw):
    """sequence lengths around the FASTA / NEXUS line-wrapping widths"""
    dtype, fmt = kw["dtype"], kw["fmt"]
    cls = TYPES[dtype]
    syms = symbols_of(dtype)
    n = [1, 2, 69, 70, 71, 72, 139, 140, 141][choose(kw["longlen"], 9)]
    seqs = {}
    for t, lab in enumerate(["t1", "t2"]):
        seqs[lab] = "".join(syms[(t + 7 * j + j // 5) % len(syms)] for j in range(n))
    m = cls.from_dict(seqs)
    wopts = {}
    if fmt == "fasta" and not kw["wrap"]:
        wopts["wrap"] = False
    back = cls.get(data=m.as_string(fmt, **wopts), schema=fmt)
    return same_content(content(m, dtype), content(back, dtype), dtype) or True


@with_signature(SPEC)
def c09_labels(kw):
    """labels obey the quoting rule in the formats that can quote them"""
    fmt = kw["fmt"]
    lab = QLABELS[choose(kw["qlab"], len(QLABELS))]
    m = dendropy.DnaCharacterMatrix.from_dict({lab: "ACGT", "other": "A-?T"})
    back = dendropy.DnaCharacterMatrix.get(data=m.as_string(fmt), schema=fmt)
    return same_content(content(m, "dna"), content(back, "dna"), "dna") or True


@with_signature(SPEC)
def c09_dataset(kw):
    """a data set with 1..3 taxon namespaces through NEXUS / NeXML: every matrix and tree list comes
    back on a namespace carrying exactly its own labels"""
    fmt = kw["fmt"]
    nns = 1 + choose(kw["ntax"], 3)
    same_label = True if kw["strict"] else False
    ds = dendropy.DataSet()
    spec = []
    for i in range(nns):
        labs = ["n%d_a" % i, "n%d b" % i, "c"][: 2 + (i % 2)]
        nslabel = ("my taxa" if same_label else "taxa%d" % i) if kw["interleaved"] else None
        tns = dendropy.TaxonNamespace(labs, label=nslabel)
        ds.add_taxon_namespace(tns)
        m = (dendropy.DnaCharacterMatrix if i % 2 == 0 else dendropy.ProteinCharacterMatrix).from_dict(
            dict((l, "ACGT"[j % 4] * 3) for j, l in enumerate(labs)), taxon_namespace=tns)
        ds.add_char_matrix(m)
        tl = dendropy.TreeList(taxon_namespace=tns)
        tl.append(dendropy.Tree.get(data="(%s);" % ",".join("'%s'" % l for l in labs), schema="newick", taxon_namespace=tns))
        ds.add_tree_list(tl)
        spec.append((labs, content(m, "dna")))
    wopts = {}
    if fmt == "nexus" and nns > 1:
        wopts["suppress_block_titles"] = False
    text = ds.as_string(fmt, **wopts)
    back = dendropy.DataSet.get(data=text, schema=fmt)
    if len(back.char_matrices) != nns or len(back.tree_lists) != nns:
        return "number-of-components-differs"
    for (labs, cont), m2, tl2 in zip(spec, back.char_matrices, back.tree_lists):
        if [t.label for t in m2.taxon_namespace] != labs:
            return "matrix-attached-to-a-namespace-with-other-labels"
        if [t.label for t in tl2.taxon_namespace] != labs:
            return "tree-list-attached-to-a-namespace-with-other-labels"
        if content(m2, "dna") != cont:
            return "matrix-content-differs"
        if sorted(nd.taxon.label for nd in tl2[0].leaf_node_iter()) != sorted(labs):
            return "tree-taxa-differ"
    return True


def classify(inp):
    if inp.get("aspect") == "roundtrip" and inp.get("route") == 2 and inp.get("nchar", 0) >= 1:
        return "%s:%s:concatenated" % (inp.get("dtype"), inp.get("fmt"))
    return "%s:%s" % (inp.get("dtype"), inp.get("fmt"))


BUDGET = dict(quick=240, thorough=900)


def harnesses(tier):
    q = tier == "quick"
    shards = [dict(dtype=d, fmt=f, aspect="roundtrip", ntax=nt) for f in ("nexus", "phylip", "fasta", "nexml") for d in SUPPORTED[f] if not (f in ("phylip", "fasta") and d == "continuous")
              for nt in range(3)]
    common = dict(assumptions=["cell (0,0) is a symbolic choice over the data type's FULL symbol set; every other cell is a fixed rotation relative to it, so all symbols occur in all positions across the paths",
                               "text is concrete where it is parsed (regex / float / expat are C boundaries)"],
                  outside=["data type / format pairs the format has no representation for (NEXUS: restriction, infinite sites; NeXML: nucleotide, infinite sites; PHYLIP/FASTA: continuous)",
                           "dendropy-format command line", "matrices with explicit per-column character types"], classify=classify)
    hs = [Harness("c09_roundtrip", "C09", c09_roundtrip, shards,
                  bounds=dict(types="dna, rna, nucleotide, protein, standard, restriction, infinite sites, continuous x every format that represents the type (one shard each)",
                              dims="1..3 taxa x 1..3 characters (incl. 1xN and Nx1)", cells="symbolic base symbol over the FULL symbol set (fundamental states, gap, missing, ambiguity codes), other cells rotated / continuous pool %r" % CONT_POOL,
                              routes="from_dict / parsed from NEXUS / concatenate / export_character_indices (symbolic)", phylip="strict x interleaved (symbolic), labels admissible for the variant"),
                  functions=["NexusWriter._write_char_block", "NexusReader._parse_characters_data_block/_process_discrete_matrix_data/_read_character_states", "PhylipWriter", "PhylipReader", "FastaWriter", "FastaReader._read",
                             "NexmlWriter._write_char_matrix/_write_format_section", "nexmlreader._NexmlCharBlockParser", "CharacterMatrix.from_dict/concatenate/export_character_indices"],
                  cost=5.0, **common)]
    lshards = [dict(dtype=d, fmt=f, aspect="long") for f in ("nexus", "phylip", "fasta") for d in ("dna", "protein")]
    hs.append(Harness("c09_long_sequences", "C09", c09_long_sequences, lshards,
                      bounds=dict(lengths="1, 2, 69..72, 139..141 characters (symbolic choice)", formats="NEXUS, PHYLIP, FASTA (wrapped and unwrapped)"),
                      functions=["FastaWriter._write_char_matrix", "NexusWriter._write_char_block", "PhylipWriter"], cost=1.0, **common))
    hs.append(Harness("c09_labels", "C09", c09_labels, [dict(dtype="dna", fmt=f, aspect="labels") for f in ("nexus", "nexml", "fasta")],
                      bounds=dict(labels="symbolic choice from %r" % QLABELS), functions=["NexusWriter taxon labels", "escape_nexus_token", "NexmlWriter"], cost=1.0, **common))
    hs.append(Harness("c09_dataset", "C09", c09_dataset, [dict(dtype="dna", fmt=f, aspect="dataset") for f in ("nexus", "nexml")],
                      bounds=dict(namespaces="1..3 taxon namespaces, each with a matrix and a tree list; namespace labels absent / distinct / identical and needing escaping (symbolic)"),
                      functions=["NexusWriter._write/_get_block_title/_write_taxa_block", "NexusReader (TITLE/LINK)", "NexmlWriter", "NexmlReader"], cost=1.0, **common))
    return hs
