"""C06 - tree-sample summaries are independent of partitioning, order and scheduling."""
import os
import queue
import tempfile

import dendropy
from dendropy.application import sumtrees
from dendropy.utility import error as dperror

from vlib.driver import Harness, assume, choose, Fail, with_signature
from vlib import treegen as tg
from vlib.symenv import SymRng
from props.c05 import POOL, SHAPES, TAXA, make_tree, splits_of

K = 4
SPEC = ([("t%d" % i, int) for i in range(K)] + [("a%d" % i, int) for i in range(K)] + [("m%d" % i, int) for i in range(3)] +
        [("d%d" % i, int) for i in range(8)] + [("rooted", bool), ("explicit", bool), ("sc", int), ("use_w", bool), ("w0", int), ("via", int),
         ("k", int), ("parts", int), ("npool", int), ("nfiles", int), ("nproc", int)])

PRIMS = ["update", "extend", "iadd", "add"]


def new_array(tns, rooted, explicit, use_w=False):
    return dendropy.TreeArray(taxon_namespace=tns, is_rooted_trees=(rooted if explicit else None), use_tree_weights=use_w)


def summary(ta):
    """everything the property names, in an order-independent form"""
    sd = ta.split_distribution
    counts = dict((s, c) for s, c in sd.split_counts.items() if c)
    lens = dict((s, sorted(x for x in v if x is not None)) for s, v in sd.split_edge_lengths.items() if v)
    freqs = dict((s, sd[s]) for s in counts)
    return counts, lens, freqs, sd.total_trees_counted, sd.sum_of_tree_weights


def compare_summaries(a, b):
    names = ("split-counts", "per-split-edge-length-multisets", "split-frequencies", "number-of-trees", "sum-of-weights")
    for x, y, nm in zip(a, b, names):
        if isinstance(x, dict):
            if sorted(x.keys()) != sorted(y.keys()):
                return nm + ":different-splits"
            for k in x:
                if isinstance(x[k], list):
                    if x[k] != y[k]:
                        return nm + "-differ"
                elif abs(x[k] - y[k]) > 1e-9:
                    return nm + "-differ"
        elif abs(x - y) > 1e-9:
            return nm + "-differ"
    return None


def consistent(ta):
    n = len(ta._tree_split_bitmasks)
    if not (len(ta._tree_edge_lengths) == n and len(ta._tree_leafset_bitmasks) == n and len(ta._tree_weights) == n):
        return "per-tree-lists-not-equally-long"
    if len(ta) != n:
        return "length-differs-from-per-tree-lists"
    for i in range(n):
        t = ta.restore_tree(i)
        if tg.wellformed(t) is not None:
            return "restored-tree-malformed"
    if n:
        ta.calculate_sum_of_split_supports()
        ta.calculate_log_product_of_split_supports()
    return None


@with_signature(SPEC)
def c06_merge(kw):
    k, parts = kw["k"], kw["parts"]
    rooted = True if kw["rooted"] else False
    explicit = True if kw["explicit"] else False
    use_w = True if kw["use_w"] else False
    tns = dendropy.TaxonNamespace(TAXA)
    specs = []
    for i in range(k):
        nw = POOL[choose(kw["t%d" % i], kw["npool"])] if i < 2 else POOL[(i + 1) % kw["npool"]]
        n = len(SHAPES[nw][0]) + 1
        sc = 2.5 * (i + 1)
        specs.append((nw, [None] + [sc * (1 + j % 2) for j in range(1, n)], (i + 1) if use_w else None))

    def fresh(i):
        t, _ = make_tree(specs[i][0], tns, rooted, specs[i][1])
        if specs[i][2] is not None:
            t.weight = specs[i][2]
        return t

    # reference: one at a time in the original order
    ref = new_array(tns, rooted, explicit, use_w)
    for i in range(k):
        ref.add_tree(fresh(i))
    expected = summary(ref)
    # sub-collections: every tree goes to a symbolically chosen part (parts may stay empty); each
    # part adds its trees by a symbolic mix of add_tree / insert(0)
    subs = [new_array(tns, rooted, explicit, use_w) for _ in range(parts)]
    for i in range(k):
        p = choose(kw["a%d" % i], parts)
        if explicit and len(subs[p]):
            subs[p].insert(0, fresh(i))
        else:
            subs[p].add_tree(fresh(i))
    before_subs = [summary(x) for x in subs]
    order = list(range(parts))
    SymRng(ints=[kw["d%d" % i] for i in range(8)]).shuffle(order)
    master = new_array(tns, rooted, explicit, use_w)
    for step, p in enumerate(order):
        prim = PRIMS[choose(kw["m0"], len(PRIMS))]      # one primitive per history (symbolic)
        try:
            if prim == "update":
                master.update(subs[p])
            elif prim == "extend":
                master.extend(subs[p])
            elif prim == "iadd":
                master += subs[p]
            else:
                master = master + subs[p]
        except (AssertionError, dperror.MixedRootingError, dendropy.TreeArray.IncompatibleTreeArrayUpdate) as e:
            return "merge-of-compatible-collections-failed:" + type(e).__name__
    r = compare_summaries(expected, summary(master))
    if r is not None:
        return r
    r = consistent(master)
    if r is not None:
        return r
    # consensus, supports and maximum credibility score
    if k:
        c1 = ref.consensus_tree(min_freq=0.5, summarize_splits=False)
        c2 = master.consensus_tree(min_freq=0.5, summarize_splits=False)
        if splits_of(c1, rooted) != splits_of(c2, rooted):
            return "consensus-differs"
        s1 = max(ref.calculate_sum_of_split_supports()[0])
        s2 = max(master.calculate_sum_of_split_supports()[0])
        if abs(s1 - s2) > 1e-9:
            return "maximum-credibility-score-differs"
    # the sub-collections themselves are unchanged by having been merged
    for p in range(parts):
        r = consistent(subs[p])
        if r is not None:
            return "sub-collection:" + r
        r = compare_summaries(before_subs[p], summary(subs[p]))
        if r is not None:
            return "merging-altered-a-sub-collection:" + r
    return True


# ------------------------------------------------------------------------------------------ SumTrees scheduler


class _Sched:
    """Exact abstraction of scheduler nondeterminism for TreeProcessor.parallel_analyze_trees, given
    that workers interact only through the two queues: which worker obtains which file, and the
    order in which results arrive, are symbolic; every worker runs to completion when started."""

    def __init__(self, assignment, arrival_rng):
        self.assignment = assignment      # file index -> worker index
        self.rng = arrival_rng
        self.current = -1
        self.files = []
        self.results = []
        self.calls = 0

    class Lock:
        def acquire(self, *a, **k):
            return True

        def release(self):
            pass

        def __enter__(self):
            return self

        def __exit__(self, *a):
            return False


class _FakeMP:
    def __init__(self, sched):
        self.sched = sched
        self.Process = sumtrees.multiprocessing.Process
        self.n = 0

    def Lock(self):
        return _Sched.Lock()

    def Queue(self):
        self.n += 1
        return _WorkQueue(self.sched) if self.n == 1 else _ResultQueue(self.sched)

    def cpu_count(self):
        return 4


class _WorkQueue:
    def __init__(self, sched):
        self.s = sched

    def put(self, f):
        self.s.files.append(f)

    def get_nowait(self):
        # the running worker obtains exactly the files the schedule assigns to it, in queue order
        for i, f in enumerate(self.s.files):
            if f is not None and self.s.assignment[i] == self.s.current:
                self.s.files[i] = None
                return f
        raise queue.Empty


class _ResultQueue:
    def __init__(self, sched):
        self.s = sched
        self.shuffled = False

    def put(self, x):
        self.s.results.append(x)

    def get(self):
        if not self.shuffled:
            self.s.rng.shuffle(self.s.results)
            self.shuffled = True
        return self.s.results.pop(0)


def _write_files(specs, rooted, tns_labels):
    d = os.path.join(os.path.dirname(os.path.dirname(os.path.abspath(__file__))), "scratch")
    os.makedirs(d, exist_ok=True)
    paths = []
    for trees in specs:
        fd, p = tempfile.mkstemp(suffix=".nwk", dir=d)
        with os.fdopen(fd, "w") as f:
            for nw in trees:
                f.write(nw + ";\n")
        paths.append(p)
    return paths


@with_signature(SPEC)
def c06_sumtrees(kw):
    nfiles, nproc = kw["nfiles"], kw["nproc"]
    rooted = True if kw["rooted"] else False
    explicit = True if kw["explicit"] else False
    files = []
    for i in range(nfiles):
        a = POOL[choose(kw["t%d" % i], kw["npool"])]
        files.append([a, POOL[(i + 2) % kw["npool"]]])
    paths = _write_files(files, rooted, TAXA)
    try:
        def processor(nproc_):
            return sumtrees.TreeProcessor(is_source_trees_rooted=(rooted if explicit else None), ignore_edge_lengths=False, ignore_node_ages=True,
                                          use_tree_weights=False, ultrametricity_precision=None, taxon_label_age_map=None,
                                          num_processes=nproc_, log_frequency=(0 if kw["use_w"] else 1), messenger=None, debug_mode=True)
        offset = choose(kw["sc"], 2)          # burn-in: trees to skip at the start of EVERY file
        serial = processor(1).serial_analyze_trees(tree_sources=paths, schema="newick", taxon_namespace=dendropy.TaxonNamespace(TAXA), tree_offset=offset)
        assignment = [choose(kw["a%d" % i], nproc) for i in range(nfiles)]
        sched = _Sched(assignment, SymRng(ints=[kw["d%d" % i] for i in range(8)]))
        real_mp = sumtrees.multiprocessing
        real_start = sumtrees.TreeAnalysisWorker.start

        def start(worker):
            sched.current += 1
            worker.run()
        sumtrees.multiprocessing = _FakeMP(sched)
        sumtrees.TreeAnalysisWorker.start = start
        try:
            par = processor(nproc).parallel_analyze_trees(tree_sources=paths, schema="newick", taxon_namespace=dendropy.TaxonNamespace(TAXA), tree_offset=offset)
        except dendropy.TreeArray.IncompatibleTreeArrayUpdate as e:
            return "parallel-run-failed-to-merge-worker-results:" + type(e).__name__
        finally:
            sumtrees.multiprocessing = real_mp
            sumtrees.TreeAnalysisWorker.start = real_start
    finally:
        for p in paths:
            try:
                os.remove(p)
            except OSError:
                pass
    if any(f is not None for f in sched.files):
        return "a-file-was-never-read"
    if len(serial) != nfiles * (2 - offset):
        return "serial-run-read-wrong-number-of-trees"
    r = compare_summaries(summary(serial), summary(par))
    if r is not None:
        return "serial-vs-parallel:" + r
    r = consistent(par)
    if r is not None:
        return "parallel:" + r
    isr = bool(serial.is_rooted_trees)
    c1 = serial.consensus_tree(min_freq=0.5, summarize_splits=False)
    c2 = par.consensus_tree(min_freq=0.5, summarize_splits=False)
    if splits_of(c1, isr) != splits_of(c2, isr):
        return "serial-vs-parallel:consensus-differs"
    return True


def classify(inp):
    return "k%s" % inp.get("k")


BUDGET = dict(quick=240, thorough=900)


def harnesses(tier):
    q = tier == "quick"
    npool = 4 if q else 6
    common = dict(assumptions=["sub-collections share one namespace and the same settings", "trees carry concrete edge lengths (fixed pattern x symbolic scale)",
                               "SumTrees: workers communicate only through the work queue and the results queue (true by reading TreeAnalysisWorker.run); "
                               "Process.start() is replaced by run-to-completion, multiprocessing.Queue/Lock by in-process stubs"],
                  outside=["real OS process behaviour (pickling, signals)", "core-count auto-detection", "output formatting"], classify=classify, path_timeout=15.0)
    shards = [dict(k=k, parts=p, npool=npool, nfiles=0, nproc=0, t0=t0, use_w=uw) for k in ((1, 2, 3) if q else (1, 2, 3, 4)) for p in ((1, 2, 3) if q else (2, 3))
              for t0 in range(npool) for uw in ((False,) if q else (False, True)) if not (q and k == 3 and p == 3)]
    hs = [Harness("c06_merge", "C06", c06_merge, shards,
                  bounds=dict(trees="1..%d trees, each a symbolic choice from %d topologies" % (3 if q else 4, npool), parts="1..3 sub-collections, symbolic assignment (empty parts reachable), symbolic arrival order",
                              primitive="update / extend / += / + (one symbolic choice per history); add_tree or insert(0) inside the parts", rooting="rooted or unrooted, given explicitly or implied by the first tree (symbolic)",
                              weights="use_tree_weights symbolic"),
                  functions=["TreeArray.update/extend/__iadd__/__add__/add_tree/insert/validate_rooting/restore_tree", "SplitDistribution.update", "TreeArray.consensus_tree", "calculate_sum_of_split_supports"],
                  cost=3.0, **common)]
    sshards = [dict(k=0, parts=0, npool=npool, nfiles=f, nproc=p, t0=t0) for f in ((1, 2) if q else (1, 2, 3)) for p in ((1, 2, 3) if q else (1, 2, 3, 4)) for t0 in range(npool)]
    hs.append(Harness("c06_sumtrees", "C06", c06_sumtrees, sshards,
                      bounds=dict(files="1..%d Newick files of two trees (first tree a symbolic choice); burn-in 0 or 1 tree per file; quiet or logging mode" % (2 if q else 3), workers="1..%d, incl. more workers than files" % (3 if q else 4),
                                  schedule="symbolic assignment of files to workers and symbolic arrival order of the results", rooting="explicit or implied"),
                      functions=["sumtrees.TreeProcessor.parallel_analyze_trees", "serial_analyze_trees", "TreeAnalysisWorker.__init__/run", "_read_into_tree_array", "TreeArray.update"],
                      cost=2.0, **common))
    return hs
