"""C08 - pruning, retaining and extracting yield exactly the induced subtree."""
from vlib.driver import Harness, assume, choose, Fail, with_signature
from vlib import treegen as tg

MAXN = 8
LMAX = 1000

VARIANTS = ["prune_taxa", "prune_taxa_with_labels", "retain_taxa", "retain_taxa_with_labels",
            "filter_leaf_nodes", "prune_leaves_without_taxa", "extract_tree",
            "extract_tree_with_taxa", "extract_tree_with_taxa_labels", "extract_tree_without_taxa",
            "extract_tree_without_taxa_labels", "prune_subtree"]
INPLACE = set(VARIANTS[:6] + ["prune_subtree"])

SPEC = ([("l%d" % i, int) for i in range(0, MAXN)] + [("k%d" % i, bool) for i in range(MAXN)] +
        [("lens_mode", int), ("lpos", int), ("t1", int), ("rooted", bool), ("enc", bool),
         ("f_upd", bool), ("f_sup", bool), ("f_rec", bool), ("variant", str), ("shape", list), ("lens_modes", int)])


def restricted_distances(dist, keep):
    out = {}
    for k in dist:
        if k[0] in keep and k[1] in keep:
            out[k] = dist[k]
    return out


@with_signature(SPEC)
def c08_induced(kw):
    parents = list(kw["shape"])
    n = len(parents) + 1
    variant = kw["variant"]
    lens_mode = choose(kw["lens_mode"], kw["lens_modes"])
    lengths = [None] * n
    # 0: no lengths, 1: all edges (incl. the seed edge) have one, 2: all but one, 3: exactly one
    if lens_mode in (1, 2):
        for i in range(n):
            l = kw["l%d" % i]
            assume(l >= 0)
            assume(l <= LMAX)
            lengths[i] = l
        if lens_mode == 2:
            lengths[choose(kw["lpos"], n)] = None
    elif lens_mode == 3:
        i = choose(kw["lpos"], n)
        l = kw["l%d" % i]
        assume(l >= 0)
        assume(l <= LMAX)
        lengths[i] = l
    rooted = True if kw["rooted"] else False
    tree, nodes = tg.build(parents, lengths, rooted=rooted)
    tns = tree.taxon_namespace
    sup = True if kw["f_sup"] else False
    # bipartitions: encoded before and updated by the operation, or neither (in-place variants only)
    upd = enc = False
    if variant in INPLACE:
        upd = enc = True if kw["f_upd"] else False
    leaves = [nd for nd in nodes if not nd._child_nodes]
    all_labels = [tg.leaf_label(nd) for nd in leaves]
    if variant == "prune_subtree":
        assume(n > 1)
        t = nodes[1 + choose(kw["t1"], n - 1)]
        below = tg.leafset(t)
        keep = [x for x in all_labels if x not in below]
        assume(len(keep) >= 1)
    else:
        keep = [lab for i, lab in enumerate(all_labels) if kw["k%d" % i]]
        assume(len(keep) >= 1)
    keepset = frozenset(keep)
    drop = [x for x in all_labels if x not in keepset]
    # ---- expectations from the original tree (raw links)
    if rooted:
        exp_groups = set(c & keepset for c in tg.clades(tree) if c & keepset)
    else:
        exp_groups = set()
        for sp in tg.unrooted_splits(tree):
            a, b = tuple(sp)
            a, b = a & keepset, b & keepset
            if a and b:
                exp_groups.add(frozenset((a, b)))
    exp_dist = restricted_distances(tg.pair_distances(tree), keepset)
    rootdist = {}
    for nd in leaves:
        rootdist[tg.leaf_label(nd)] = tg.root_distance(nd) + (lengths[0] if lengths[0] is not None else 0)
    if enc:
        tree.encode_bipartitions(suppress_unifurcations=False, collapse_unrooted_basal_bifurcation=False)
    before = tg.snapshot(tree)
    keep_taxa = [tns.get_taxon(x) for x in keep]
    drop_taxa = [tns.get_taxon(x) for x in drop]
    returned = None
    if variant == "prune_taxa":
        tree.prune_taxa(drop_taxa, update_bipartitions=upd, suppress_unifurcations=sup)
        res = tree
    elif variant == "prune_taxa_with_labels":
        tree.prune_taxa_with_labels(drop, update_bipartitions=upd, suppress_unifurcations=sup)
        res = tree
    elif variant == "retain_taxa":
        tree.retain_taxa(keep_taxa, update_bipartitions=upd, suppress_unifurcations=sup)
        res = tree
    elif variant == "retain_taxa_with_labels":
        tree.retain_taxa_with_labels(keep, update_bipartitions=upd, suppress_unifurcations=sup)
        res = tree
    elif variant == "filter_leaf_nodes" and lens_mode == 0 and not sup and not upd and not kw["f_rec"]:
        # a single pass (recursive=False): internal nodes may be left as leaves, so only the report of the
        # removed nodes, the survival of every accepted leaf and well-formedness are claimed
        returned = tree.filter_leaf_nodes(lambda nd: nd.taxon is not None and nd.taxon.label in keepset,
                                          recursive=False, update_bipartitions=False, suppress_unifurcations=False)
        wf = tg.wellformed(tree)
        if wf is not None:
            return wf
        reach = set(id(x) for x in tg.reachable(tree))
        exp_removed = [nd for nd in leaves if tg.leaf_label(nd) not in keepset]
        if sorted(id(x) for x in returned) != sorted(id(x) for x in exp_removed):
            return "reported-removed-leaves-wrong"
        for nd in leaves:
            if (id(nd) in reach) != (tg.leaf_label(nd) in keepset):
                return "single-pass-removed-the-wrong-leaves"
        return True
    elif variant == "filter_leaf_nodes":
        returned = tree.filter_leaf_nodes(lambda nd: nd.taxon is not None and nd.taxon.label in keepset,
                                          update_bipartitions=upd, suppress_unifurcations=sup)
        res = tree
    elif variant == "prune_leaves_without_taxa":
        for nd in leaves:
            if tg.leaf_label(nd) not in keepset:
                nd.taxon = None
        returned = tree.prune_leaves_without_taxa(update_bipartitions=upd, suppress_unifurcations=sup)
        res = tree
    elif variant == "prune_subtree":
        tree.prune_subtree(t, update_bipartitions=upd, suppress_unifurcations=sup)
        res = tree
    elif variant == "extract_tree":
        res = tree.extract_tree(node_filter_fn=lambda nd: nd.taxon.label in keepset,
                                suppress_unifurcations=sup,
                                extraction_source_reference_attr_name="extraction_source")
    elif variant == "extract_tree_with_taxa":
        res = tree.extract_tree_with_taxa(keep_taxa, suppress_unifurcations=sup)
    elif variant == "extract_tree_with_taxa_labels":
        res = tree.extract_tree_with_taxa_labels(keep, suppress_unifurcations=sup)
    elif variant == "extract_tree_without_taxa":
        res = tree.extract_tree_without_taxa(drop_taxa, suppress_unifurcations=sup)
    elif variant == "extract_tree_without_taxa_labels":
        res = tree.extract_tree_without_taxa_labels(drop, suppress_unifurcations=sup)
    else:
        raise Fail("harness:variant")
    # ---- checks
    wf = tg.wellformed(res)
    if wf is not None:
        return wf
    if tg.leaf_labels(res) != sorted(keep):
        return "surviving-leaves-wrong"
    if rooted:
        got = tg.clades(res)
    else:
        got = tg.unrooted_splits(res)
    if got != exp_groups:
        return "not-the-induced-topology"
    rnodes = tg.reachable(res)
    if sup:
        for nd in rnodes:
            if len(nd._child_nodes) == 1:
                return "unifurcation-not-suppressed"
    got_dist = tg.pair_distances(res)
    if not tg.same_dict(got_dist, exp_dist):
        return "path-length-changed"
    if len(keep) == 1 and sup:
        if len(rnodes) != 1:
            return "single-survivor-not-a-single-node"
        acc = res.seed_node._edge.length
        if acc is None:
            acc = 0
        if acc != rootdist[keep[0]]:
            return "single-survivor-accumulated-length-wrong"
    if variant not in INPLACE:
        if res is tree:
            return "extraction-returned-source"
        if tg.snapshot(tree) != before:
            return "extraction-altered-source"
        ids = set(id(x) for x in nodes)
        for nd in rnodes:
            if id(nd) in ids:
                return "extraction-shares-nodes-with-source"
        if res.taxon_namespace is not tns:
            return "extraction-different-namespace"
        if variant == "extract_tree":
            for nd in rnodes:
                src = getattr(nd, "extraction_source", None)
                if src is None or id(src) not in ids:
                    return "extraction-source-missing"
                if (tg.leafset(src) & keepset) != tg.leafset(nd):
                    return "extraction-source-maps-to-wrong-node"
                if src.taxon is not nd.taxon:
                    return "extraction-source-taxon-differs"
    else:
        if returned is not None:
            reach = set(id(x) for x in rnodes)
            for nd in returned:
                if id(nd) in reach:
                    return "reported-removed-node-still-in-tree"
            gone = [nd for nd in nodes if id(nd) not in reach and not
                    (nd is not tree.seed_node and nd._parent_node is not None and id(nd._parent_node) not in reach and False)]
            rep_leaf_labels = sorted(str(tg.leaf_label(nd)) for nd in returned if nd in leaves)
            exp_removed = sorted(str(x) if variant != "prune_leaves_without_taxa" else "None" for x in drop)
            if rep_leaf_labels != exp_removed:
                return "reported-removed-leaves-wrong"
        if upd and enc:
            r = tg.check_encoding_current(res)
            if r is not None:
                return r
    return True


def classify(inp):
    return inp["variant"]


def harnesses(tier):
    nmax = 5 if tier == "quick" else 7
    nmax_unif = 3 if tier == "quick" else 5
    shards = []
    for n in range(2, nmax + 1):
        for v in tg.ordered_representatives(tg.all_parent_vectors(n)):
            if not tg.shape_ok(v, allow_unifurcations=(n <= nmax_unif), min_leaves=2):
                continue
            for var in VARIANTS:
                core = var in ("prune_taxa", "filter_leaf_nodes", "prune_leaves_without_taxa", "extract_tree", "prune_subtree")
                lm = (3 if tier == "quick" else 4) if core else 2
                shards.append(dict(variant=var, shape=v, lens_modes=lm))
    return [Harness(
        "c08_induced", "C08", c08_induced, shards,
        bounds=dict(nodes="every ordered shape with 2..%d nodes and >= 2 leaves (unifurcations allowed up to %d nodes)" % (nmax, nmax_unif),
                    subsets="one symbolic bool per leaf, >= 1 leaf kept; prune_subtree: symbolic target node",
                    lengths="none / all symbolic ints in [0,1000] incl. the seed edge / all but one (symbolic position)%s; thin wrapper variants: none / all" % ("" if tier == "quick" else " / exactly one"),
                    flags="suppress_unifurcations, rooting, (encoding current + update_bipartitions) or neither: symbolic",
                    variants="%d API variants, one per shard" % len(VARIANTS)),
        functions=["Tree.prune_taxa", "Tree.prune_taxa_with_labels", "Tree.retain_taxa", "Tree.retain_taxa_with_labels",
                   "Tree.filter_leaf_nodes", "Tree.prune_leaves_without_taxa", "Tree.prune_subtree", "Tree.extract_tree",
                   "Tree.extract_tree_with_taxa(_labels)", "Tree.extract_tree_without_taxa(_labels)",
                   "Node.extract_subtree", "Tree.suppress_unifurcations", "Node.remove_child"],
        assumptions=["a missing edge length counts as 0 in path lengths",
                     "unrooted trees are compared by unrooted splits, rooted ones by clades"],
        outside=["subsets removing every leaf", "custom node_factory/tree_factory", "filters on internal nodes carrying taxa"],
        classify=classify)]
