"""C15 - every traversal visits each node or edge exactly once in its defining order."""
from vlib.driver import Harness, assume, choose, Fail, with_signature
from vlib import treegen as tg

MAXN = 7

# ---------------------------------------------------------------- reference traversals (raw links)


def ref_pre(nd):
    out = [nd]
    for c in nd._child_nodes:
        out.extend(ref_pre(c))
    return out


def ref_post(nd):
    out = []
    for c in nd._child_nodes:
        out.extend(ref_post(c))
    out.append(nd)
    return out


def ref_level(nd):
    out = []
    cur = [nd]
    while cur:
        nxt = []
        for x in cur:
            out.append(x)
            nxt.extend(x._child_nodes)
        cur = nxt
    return out


def ref_in(nd):
    """None if the subtree is not strictly binary."""
    if not nd._child_nodes:
        return [nd]
    if len(nd._child_nodes) != 2:
        return None
    a = ref_in(nd._child_nodes[0])
    b = ref_in(nd._child_nodes[1])
    if a is None or b is None:
        return None
    return a + [nd] + b


def ref_apply(nd):
    if not nd._child_nodes:
        return [("leaf", nd)]
    out = [("before", nd)]
    for c in nd._child_nodes:
        out.extend(ref_apply(c))
    out.append(("after", nd))
    return out


def same_seq(got, exp):
    if len(got) != len(exp):
        return False
    for a, b in zip(got, exp):
        if a is not b:
            return False
    return True


NODE_KINDS = ["pre", "pre_int", "post", "post_int", "level", "inorder", "leaf", "child_node",
              "child_edge", "ancestor", "apply", "iter"]
TREE_KINDS = ["pre", "pre_int", "post", "post_int", "level", "inorder", "leaf", "apply",
              "iter", "e_pre", "e_pre_int", "e_post", "e_post_int", "e_level", "e_inorder",
              "e_leaf", "nodes", "leaf_nodes", "internal_nodes", "edges", "leaf_edges",
              "internal_edges", "len"]

SPEC = ([("b%d" % i, bool) for i in range(MAXN)] + [("a%d" % i, int) for i in range(MAXN)] +
        [("start", int), ("fmode", int), ("flag1", bool), ("flag2", bool), ("kind", int),
         ("shape", list), ("level", str), ("fmodes", int)])


def _setup(kw):
    parents = list(kw["shape"])
    n = len(parents) + 1
    tree, nodes = tg.build(parents, None, rooted=True)
    idx = {}
    for i, nd in enumerate(nodes):
        idx[id(nd)] = i
    fmode = choose(kw["fmode"], kw["fmodes"])
    bits = [kw["b%d" % i] for i in range(n)]

    def sel(i):
        if bits[i]:
            return True
        return False

    if fmode == 0:
        nfilter = None
        efilter = None
    elif fmode == 1:
        nfilter = lambda nd: sel(idx[id(nd)])
        efilter = lambda e: sel(idx[id(e._head_node)])
    else:
        # truthy / falsy non-bool results
        nfilter = lambda nd: (nd if sel(idx[id(nd)]) else None)
        efilter = lambda e: (1 if sel(idx[id(e._head_node)]) else 0)

    def keep(seq):
        if fmode == 0:
            return list(seq)
        return [x for x in seq if sel(idx[id(x)])]

    return tree, nodes, n, idx, nfilter, efilter, keep, fmode


def _callbacks(kw, trace):
    """every subset of the three callbacks (symbolic bools b4, b5, b6 = omitted)"""
    use = dict(before=False if kw["b4"] else True, after=False if kw["b5"] else True,
               leaf=False if kw["b6"] else True)
    bf = (lambda x: trace.append(("before", x))) if use["before"] else None
    af = (lambda x: trace.append(("after", x))) if use["after"] else None
    lf = (lambda x: trace.append(("leaf", x))) if use["leaf"] else None
    return bf, af, lf, use


def _ages(kw, nodes, n):
    for i in range(n):
        a = kw["a%d" % i]
        assume(a >= 0)
        assume(a <= 1000)
        nodes[i].age = a


def _check_age(got, subtree, keep, include_leaves, descending):
    exp = [x for x in subtree if include_leaves or x._child_nodes]
    exp = keep(exp)
    if len(got) != len(exp):
        return "age:wrong-number-of-nodes"
    ids = sorted(id(x) for x in got)
    if ids != sorted(id(x) for x in exp):
        return "age:wrong-node-set"
    for i in range(len(got) - 1):
        if descending:
            if got[i].age < got[i + 1].age:
                return "age:not-monotone"
        else:
            if got[i].age > got[i + 1].age:
                return "age:not-monotone"
    return None


@with_signature(SPEC)
def c15_iters(kw):
    tree, nodes, n, idx, nfilter, efilter, keep, fmode = _setup(kw)
    flag1 = True if kw["flag1"] else False
    flag2 = True if kw["flag2"] else False
    if kw["level"] == "age":
        _ages(kw, nodes, n)
        if flag1:
            s = nodes[choose(kw["start"], n)]
            sub = ref_pre(s)
            got = list(s.ageorder_iter(filter_fn=nfilter, include_leaves=flag2, descending=False))
            r = _check_age(got, sub, keep, flag2, False)
            return True if r is None else "node:" + r
        sub = ref_pre(tree.seed_node)
        dsc = True if kw["b6"] else False
        got = list(tree.ageorder_node_iter(include_leaves=flag2, filter_fn=nfilter, descending=dsc))
        r = _check_age(got, sub, keep, flag2, dsc)
        return True if r is None else "tree:" + r
    if kw["level"] == "node":
        kind = NODE_KINDS[choose(kw["kind"], len(NODE_KINDS))]
        s = nodes[choose(kw["start"], n)]
        sub = ref_pre(s)
        if kind == "pre":
            return True if same_seq(list(s.preorder_iter(nfilter)), keep(sub)) else "node:pre"
        if kind == "iter":
            return True if same_seq(list(iter(s)), sub) else "node:__iter__"
        if kind == "post":
            return True if same_seq(list(s.postorder_iter(nfilter)), keep(ref_post(s))) else "node:post"
        if kind == "level":
            return True if same_seq(list(s.levelorder_iter(nfilter)), keep(ref_level(s))) else "node:level"
        if kind in ("pre_int", "post_int"):
            base = sub if kind == "pre_int" else ref_post(s)
            exp = [x for x in base if x._child_nodes and not (flag1 and x._parent_node is None)]
            it = s.preorder_internal_node_iter if kind == "pre_int" else s.postorder_internal_node_iter
            return True if same_seq(list(it(filter_fn=nfilter, exclude_seed_node=flag1)), keep(exp)) else "node:" + kind
        if kind == "inorder":
            exp = ref_in(s)
            try:
                got = list(s.inorder_iter(nfilter))
            except TypeError:
                return True if exp is None else "node:inorder-typeerror-on-binary"
            if exp is None:
                return "node:inorder-no-typeerror-on-nonbinary"
            return True if same_seq(got, keep(exp)) else "node:inorder"
        if kind == "leaf":
            exp = [x for x in sub if not x._child_nodes]
            return True if same_seq(list(s.leaf_iter(nfilter)), keep(exp)) else "node:leaf"
        if kind == "child_node":
            return True if same_seq(list(s.child_node_iter(nfilter)), keep(s._child_nodes)) else "node:child_node"
        if kind == "child_edge":
            got = [e._head_node for e in s.child_edge_iter(efilter)]
            return True if same_seq(got, keep(s._child_nodes)) else "node:child_edge"
        if kind == "ancestor":
            exp = tg.ancestors(s)
            if not flag1:
                exp = exp[1:]
            return True if same_seq(list(s.ancestor_iter(filter_fn=nfilter, inclusive=flag1)), keep(exp)) else "node:ancestor"
        if kind == "age":
            _ages(kw, nodes, n)
            got = list(s.ageorder_iter(filter_fn=nfilter, include_leaves=flag1, descending=flag2))
            r = _check_age(got, sub, keep, flag1, flag2)
            return True if r is None else "node:" + r
        if kind == "apply":
            trace = []
            cb = _callbacks(kw, trace)
            s.apply(before_fn=cb[0], after_fn=cb[1], leaf_fn=cb[2])
            exp = [e for e in ref_apply(s) if cb[3][e[0]]]
            if len(trace) != len(exp):
                return "node:apply-trace-length"
            for a, b in zip(trace, exp):
                if a[0] != b[0] or a[1] is not b[1]:
                    return "node:apply-trace-order"
            return True
        raise Fail("harness:kind")
    # ---------------------------------------------------------------- tree level
    kind = TREE_KINDS[choose(kw["kind"], len(TREE_KINDS))]
    s = tree.seed_node
    sub = ref_pre(s)
    heads = lambda es: [e._head_node for e in es]
    if kind == "pre":
        return True if same_seq(list(tree.preorder_node_iter(nfilter)), keep(sub)) else "tree:pre"
    if kind == "iter":
        return True if same_seq(list(iter(tree)), sub) else "tree:__iter__"
    if kind == "post":
        return True if same_seq(list(tree.postorder_node_iter(nfilter)), keep(ref_post(s))) else "tree:post"
    if kind == "level":
        return True if same_seq(list(tree.levelorder_node_iter(nfilter)), keep(ref_level(s))) else "tree:level"
    if kind in ("pre_int", "post_int", "e_pre_int", "e_post_int", "internal_nodes", "internal_edges"):
        base = ref_post(s) if kind in ("post_int", "e_post_int") else sub
        exp = [x for x in base if x._child_nodes and not (flag1 and x._parent_node is None)]
        if kind == "pre_int":
            got = list(tree.preorder_internal_node_iter(filter_fn=nfilter, exclude_seed_node=flag1))
        elif kind == "post_int":
            got = list(tree.postorder_internal_node_iter(filter_fn=nfilter, exclude_seed_node=flag1))
        elif kind == "e_pre_int":
            got = heads(tree.preorder_internal_edge_iter(filter_fn=efilter, exclude_seed_edge=flag1))
        elif kind == "e_post_int":
            got = heads(tree.postorder_internal_edge_iter(filter_fn=efilter, exclude_seed_edge=flag1))
        elif kind == "internal_nodes":
            got = tree.internal_nodes(exclude_seed_node=flag1)
            return True if same_seq(got, exp) else "tree:internal_nodes"
        else:
            got = heads(tree.internal_edges(exclude_seed_edge=flag1))
            return True if same_seq(got, exp) else "tree:internal_edges"
        return True if same_seq(got, keep(exp)) else "tree:" + kind
    if kind in ("inorder", "e_inorder"):
        exp = ref_in(s)
        try:
            if kind == "inorder":
                got = list(tree.inorder_node_iter(nfilter))
            else:
                got = heads(tree.inorder_edge_iter(efilter))
        except TypeError:
            return True if exp is None else "tree:inorder-typeerror-on-binary"
        if exp is None:
            return "tree:inorder-no-typeerror-on-nonbinary"
        return True if same_seq(got, keep(exp)) else "tree:" + kind
    if kind in ("leaf", "e_leaf", "leaf_nodes", "leaf_edges", "len"):
        exp = [x for x in sub if not x._child_nodes]
        if kind == "leaf":
            return True if same_seq(list(tree.leaf_node_iter(nfilter)), keep(exp)) else "tree:leaf"
        if kind == "e_leaf":
            return True if same_seq(heads(tree.leaf_edge_iter(efilter)), keep(exp)) else "tree:e_leaf"
        if kind == "leaf_nodes":
            return True if same_seq(tree.leaf_nodes(), exp) else "tree:leaf_nodes"
        if kind == "leaf_edges":
            return True if same_seq(heads(tree.leaf_edges()), exp) else "tree:leaf_edges"
        if len(tree) != len(exp):
            return "tree:len"
        if flag1:
            # the same after a history: encode, then edit without re-encoding (no cached leaf count may be used)
            tree.encode_bipartitions()
            leaves = [x for x in tg.reachable(tree) if not x._child_nodes]
            if len(tree) != len(leaves):
                return "tree:len-after-encoding"
            victim = leaves[-1]
            if flag2 and victim._parent_node is not None:
                victim._parent_node.remove_child(victim)
            else:
                victim.new_child()
                victim.new_child()
            if len(tree) != len([x for x in tg.reachable(tree) if not x._child_nodes]):
                return "tree:len-stale-after-edit"
        return True
    if kind == "e_pre":
        return True if same_seq(heads(tree.preorder_edge_iter(efilter)), keep(sub)) else "tree:e_pre"
    if kind == "e_post":
        return True if same_seq(heads(tree.postorder_edge_iter(efilter)), keep(ref_post(s))) else "tree:e_post"
    if kind == "e_level":
        return True if same_seq(heads(tree.levelorder_edge_iter(efilter)), keep(ref_level(s))) else "tree:e_level"
    if kind == "nodes":
        return True if same_seq(tree.nodes(filter_fn=nfilter), keep(sub)) else "tree:nodes"
    if kind == "edges":
        return True if same_seq(heads(tree.edges(filter_fn=efilter)), keep(sub)) else "tree:edges"
    if kind == "age":
        _ages(kw, nodes, n)
        got = list(tree.ageorder_node_iter(include_leaves=flag1, filter_fn=nfilter, descending=flag2))
        r = _check_age(got, sub, keep, flag1, flag2)
        return True if r is None else "tree:" + r
    if kind == "apply":
        trace = []
        cb = _callbacks(kw, trace)
        tree.apply(before_fn=cb[0], after_fn=cb[1], leaf_fn=cb[2])
        exp = [e for e in ref_apply(s) if cb[3][e[0]]]
        if len(trace) != len(exp):
            return "tree:apply-trace-length"
        for a, b in zip(trace, exp):
            if a[0] != b[0] or a[1] is not b[1]:
                return "tree:apply-trace-order"
        return True
    raise Fail("harness:kind")


def classify(inp):
    if inp["level"] == "age":
        return "age"
    kinds = NODE_KINDS if inp["level"] == "node" else TREE_KINDS
    k = inp["kind"]
    return inp["level"] + ":" + (kinds[k] if 0 <= k < len(kinds) else "?")


def harnesses(tier):
    nmax = 4 if tier == "quick" else 6
    nmax_age = 4 if tier == "quick" else 5
    shards = []
    for n in range(1, nmax + 1):
        for v in tg.ordered_representatives(tg.all_parent_vectors(n)):
            for level in ("node", "tree", "age"):
                if level == "age":
                    if n > nmax_age:
                        continue
                    fm = 2 if n <= 3 else 1
                else:
                    fm = 3 if n <= nmax - 1 else 2
                shards.append(dict(shape=v, level=level, fmodes=fm))
    return [Harness(
        "c15_iters", "C15", c15_iters, shards,
        bounds=dict(nodes="every ordered rooted shape (unifurcations, polytomies, single node) with <= %d nodes" % nmax,
                    start="symbolic index over all nodes (Node-level iterators)",
                    filter="None / one symbolic bool per node / truthy-falsy objects per node",
                    ages="symbolic int in [0,1000] per node (age-order)", flags="symbolic bools"),
        functions=["Node.preorder_iter", "Node.postorder_iter", "Node.levelorder_iter", "Node.inorder_iter",
                   "Node.leaf_iter", "Node.ageorder_iter", "Node.ancestor_iter", "Node.child_node_iter",
                   "Node.child_edge_iter", "Node.*_internal_node_iter", "Node.apply", "Tree.*_node_iter",
                   "Tree.*_edge_iter", "Tree.nodes/edges/leaf_nodes/internal_nodes/leaf_edges/internal_edges",
                   "Tree.apply", "Tree.__len__", "Tree.__iter__"],
        assumptions=["filters are pure functions of the node/edge"],
        outside=["filters with side effects", "trees with more nodes than the bound"],
        classify=classify)]
