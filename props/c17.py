"""C17 - node ages, the ultrametricity check and tree statistics match their definitions."""
import math

import dendropy
from dendropy.calculate import treemeasure
from dendropy.utility import error as dperror

from vlib.driver import Harness, assume, choose, Fail, with_signature
from vlib import treegen as tg

MAXN = 9
LMAX = 1000

SPEC = ([("l%d" % i, int) for i in range(1, MAXN)] + [("a%d" % i, int) for i in range(0, MAXN)] +
        [("eps", int), ("pmode", int), ("force", int), ("q", int), ("norm", int), ("mirror", bool), ("stat", int),
         ("shape", list)])


def smax(a, b):
    return (a + b + abs(a - b)) / 2


def smin(a, b):
    return (a + b - abs(a - b)) / 2


def tip_distances(nd):
    """list of distances from nd down to each of its tips (raw links)"""
    if not nd._child_nodes:
        return [0]
    out = []
    for c in nd._child_nodes:
        for d in tip_distances(c):
            out.append(d + c._edge.length)
    return out


def build_lengths(kw, lo=0):
    parents = list(kw["shape"])
    n = len(parents) + 1
    lengths = [None]
    for i in range(1, n):
        l = kw["l%d" % i]
        assume(l >= lo)
        assume(l <= LMAX)
        lengths.append(l)
    tree, nodes = tg.build(parents, lengths, rooted=True)
    return tree, nodes, lengths


def local_check_passes(inp):
    """used only to classify a counterexample: does every node pass the *local* comparison
    (first child vs. siblings) that calc_node_ages performs?"""
    parents = list(inp["shape"])
    n = len(parents) + 1
    ch = [[] for _ in range(n)]
    for i, p in enumerate(parents):
        ch[p].append(i + 1)
    age = [0] * n
    eps = inp["eps"]
    for i in range(n - 1, -1, -1):
        if ch[i]:
            age[i] = age[ch[i][0]] + inp["l%d" % ch[i][0]]
            for c in ch[i][1:]:
                if abs(age[i] - (age[c] + inp["l%d" % c])) > eps:
                    return False
    return True


@with_signature(SPEC)
def c17_ages(kw):
    tree, nodes, lengths = build_lengths(kw)
    pmode = choose(kw["pmode"], 4)      # numeric precision / None / False / negative
    force = choose(kw["force"], 3)      # none / max / min
    eps = kw["eps"]
    assume(eps >= 0)
    assume(eps <= 50)
    prec = [eps, None, False, -1][pmode]
    # spread of the root-to-tip path lengths (fork-free max/min)
    tips = tip_distances(tree.seed_node)
    hi = lo = tips[0]
    for d in tips[1:]:
        hi = smax(hi, d)
        lo = smin(lo, d)
    spread = hi - lo
    kwargs = dict(ultrametricity_precision=prec, is_force_max_age=(force == 1), is_force_min_age=(force == 2))
    try:
        tree.calc_node_ages(**kwargs)
        raised = False
    except dperror.UltrametricityError:
        raised = True
    checked = pmode == 0 and force == 0
    if not checked:
        if raised:
            return "ultrametricity-error-although-check-disabled-or-forced"
        if force:
            dev = 0       # (sums of absolute deviations: fork-free terms, one comparison at the end)
            leafdev = 0
            for nd in nodes:
                if nd._child_nodes:
                    vals = [c.age + c._edge.length for c in nd._child_nodes]
                    m = vals[0]
                    for v in vals[1:]:
                        m = smax(m, v) if force == 1 else smin(m, v)
                    dev = dev + abs(nd.age - m)
                else:
                    leafdev = leafdev + abs(nd.age)
            if dev != 0:
                return "forced-age-not-max-or-min-over-children"
            if leafdev != 0:
                return "leaf-age-not-zero"
        return True
    if spread > eps:
        if not raised:
            return "non-ultrametric-tree-accepted"
        return True
    # all root-to-tip path lengths agree within eps
    if raised:
        return "ultrametric-tree-rejected"
    worst = 0
    for nd in nodes:
        for d in tip_distances(nd):
            worst = smax(worst, abs(nd.age - d))
    if worst > eps:
        return "age-not-within-precision-of-tip-distance"
    return True


@with_signature(SPEC)
def c17_depths(kw):
    """depths, root distances, exact age/length round trip and lineage counts on exactly ultrametric trees"""
    parents = list(kw["shape"])
    n = len(parents) + 1
    tree, nodes = tg.build(parents, None, rooted=True)
    # node heights: leaves 0, parents strictly above children -> exactly ultrametric, positive lengths
    age = [None] * n
    for i in range(n - 1, -1, -1):
        if not nodes[i]._child_nodes:
            age[i] = 0
        else:
            a = kw["a%d" % i]
            assume(a >= 1)
            assume(a <= LMAX)
            for c in nodes[i]._child_nodes:
                assume(a > age[nodes.index(c)])
            age[i] = a
    lengths = [None] + [age[parents[i - 1]] - age[i] for i in range(1, n)]
    for i in range(1, n):
        nodes[i].edge.length = lengths[i]
    what = choose(kw["stat"], 5)
    if what == 0:
        got = tree.calc_node_ages(ultrametricity_precision=0)
        for i in range(n):
            if nodes[i].age != age[i]:
                return "age-wrong-on-exactly-ultrametric-tree"
        if len(got) != n:
            return "calc_node_ages-returns-wrong-number"
        ia = tree.internal_node_ages(ultrametricity_precision=0)
        if len(ia) != sum(1 for x in nodes if x._child_nodes):
            return "internal_node_ages-wrong-number"
        for nd in nodes:
            nd.edge.length = None
        tree.set_edge_lengths_from_node_ages()
        for i in range(1, n):
            if nodes[i].edge.length != lengths[i]:
                return "edge-lengths-from-ages-do-not-restore-lengths"
        return True
    if what == 1:
        cache = tree.resolve_node_depths()
        tree.calc_node_root_distances()
        for nd in nodes:
            rd = tg.root_distance(nd)
            if nd.depth != rd or cache[nd] != rd or nd.root_distance != rd:
                return "depth-not-distance-from-root"
        return True
    if what == 2:
        tree.resolve_node_ages()
        for i in range(n):
            if nodes[i].age != age[i]:
                return "resolve_node_ages-wrong"
        return True
    if what == 3:
        q = kw["q"]
        assume(q >= 0)
        assume(q <= age[0])
        exp = 0
        for nd in nodes[1:]:
            if tg.root_distance(nd._parent_node) < q and q <= tg.root_distance(nd):
                exp += 1
        if tree.num_lineages_at(q) != exp:
            return "num_lineages_at-not-number-of-edges-crossing"
        return True
    tot = 0
    for i in range(1, n):
        tot = tot + lengths[i]
    if tree.length() != tot:
        return "tree-length-wrong"
    if tree.max_distance_from_root() != age[0]:
        return "max_distance_from_root-wrong"
    mn, mx = tree.minmax_leaf_distance_from_root()
    if mn != age[0] or mx != age[0]:
        return "minmax_leaf_distance_from_root-wrong"
    return True


# ---------------------------------------------------------------- statistics: independent definitions


def _nleaves(nd):
    return 1 if not nd._child_nodes else sum(_nleaves(c) for c in nd._child_nodes)


def ref_sackin(tree):
    tot = 0
    n = 0
    for nd in tg.reachable(tree):
        if not nd._child_nodes:
            n += 1
            tot += len(tg.ancestors(nd)) - 1
    return tot, n


def ref_colless(nd):
    if not nd._child_nodes:
        return 0
    a, b = nd._child_nodes
    return abs(_nleaves(a) - _nleaves(b)) + ref_colless(a) + ref_colless(b)


def ref_M(nd):
    return 0 if not nd._child_nodes else 1 + max(ref_M(c) for c in nd._child_nodes)


def ref_B1(tree):
    return sum(1.0 / ref_M(nd) for nd in tg.reachable(tree) if nd._child_nodes and nd._parent_node is not None)


EULER = 0.5772156649015329


@with_signature(SPEC)
def c17_shape_stats(kw):
    parents = list(kw["shape"])
    tree, nodes = tg.build(parents, None, rooted=True)
    binary = all(len(nd._child_nodes) in (0, 2) for nd in nodes)
    if kw["mirror"]:
        for nd in nodes:
            nd._child_nodes.reverse()
    stat = choose(kw["stat"], 4)
    S, n = ref_sackin(tree)
    norm = choose(kw["norm"], 5)
    arg = [True, "yule", "pda", None, False][norm]
    if stat == 0:
        got = treemeasure.N_bar(tree)
        return True if abs(got - S / n) <= 1e-12 else "N_bar-wrong"
    if stat == 1:
        got = treemeasure.sackin_index(tree, normalize=arg)
        exp = [S / n, (S - 2 * n * sum(1.0 / j for j in range(2, n + 1))) / n, S / n ** 1.5, S, S][norm]
        return True if abs(got - exp) <= 1e-12 * (1 + abs(exp)) else "sackin-index-wrong"
    if stat == 2:
        arg = [True, "yule", "pda", None, "max"][norm]
        if not binary:
            try:
                treemeasure.colless_tree_imbalance(tree, normalize=arg)
            except (TypeError, IndexError):
                return True
            return "colless-accepted-non-binary-tree"
        assume(n >= 3)
        C = ref_colless(tree.seed_node)
        got = treemeasure.colless_tree_imbalance(tree, normalize=arg)
        exp = [C * 2.0 / ((n - 1) * (n - 2)), (C - n * math.log(n) - n * (EULER - 1 - math.log(2))) / n, C / n ** 1.5, C,
               C * 2.0 / ((n - 1) * (n - 2))][norm]
        return True if abs(got - exp) <= 1e-12 * (1 + abs(exp)) else "colless-wrong"
    got = treemeasure.B1(tree)
    exp = ref_B1(tree)
    return True if abs(got - exp) <= 1e-12 * (1 + exp) else "B1-wrong"


@with_signature(SPEC)
def c17_treeness(kw):
    tree, nodes, lengths = build_lengths(kw)
    internal = 0
    total = 0
    for i in range(1, len(nodes)):
        total = total + lengths[i]
        if nodes[i]._child_nodes:
            internal = internal + lengths[i]
    assume(total > 0)
    if kw["mirror"]:
        for nd in nodes:
            nd._child_nodes.reverse()
    got = treemeasure.treeness(tree)
    if abs(got * total - internal) > 1e-9 * (1 + total):
        return "treeness-wrong"
    return True


@with_signature(SPEC)
def c17_gamma(kw):
    """Pybus-Harvey gamma on a binary ultrametric tree with small concrete node heights"""
    parents = list(kw["shape"])
    n = len(parents) + 1
    tree, nodes = tg.build(parents, None, rooted=True)
    age = [None] * n
    for i in range(n - 1, -1, -1):
        if not nodes[i]._child_nodes:
            age[i] = 0
        else:
            a = 1 + choose(kw["a%d" % i], 6)
            for c in nodes[i]._child_nodes:
                assume(a > age[nodes.index(c)])
            age[i] = a
    for i in range(1, n):
        nodes[i].edge.length = age[parents[i - 1]] - age[i]
    if kw["mirror"]:
        for nd in nodes:
            nd._child_nodes.reverse()
    nl = sum(1 for x in nodes if not x._child_nodes)
    assume(nl >= 3)
    sp = sorted((age[i] for i in range(n) if nodes[i]._child_nodes), reverse=True)
    # internode intervals g_2 .. g_n (k lineages during g_k)
    g = {}
    for k in range(2, nl + 1):
        older = sp[k - 2]
        younger = sp[k - 1] if k - 1 < len(sp) else 0
        g[k] = older - younger
    T = sum(k * g[k] for k in range(2, nl + 1))
    inner = sum(sum(k * g[k] for k in range(2, i + 1)) for i in range(2, nl))
    exp = (inner / (nl - 2.0) - T / 2.0) / (T * math.sqrt(1.0 / (12 * (nl - 2))))
    got = treemeasure.pybus_harvey_gamma(tree)
    return True if abs(got - exp) <= 1e-9 * (1 + abs(exp)) else "pybus-harvey-gamma-wrong"


def classify(inp):
    if "eps" in inp and inp.get("pmode") == 0 and inp.get("force") == 0:
        try:
            return "every-local-child-comparison-within-precision" if local_check_passes(inp) else "some-local-comparison-exceeds-precision"
        except Exception:
            return "?"
    return "other"


def _binary(v):
    return all(sum(1 for p in v if p == i) in (0, 2) for i in range(len(v) + 1))


BUDGET = dict(quick=200, thorough=900)


def harnesses(tier):
    q = tier == "quick"
    nmax = 6 if q else 7
    shapes = tg.unordered_representatives([v for n in range(2, nmax + 1) for v in tg.all_parent_vectors(n)
                                           if tg.shape_ok(v, allow_unifurcations=False, min_leaves=2)])
    def _deep_polytomy(v):
        return any(sum(1 for p in v if p == i) >= 3 for i in range(1, len(v) + 1))
    ordered = [v for n in range(2, (9 if q else 10)) for v in tg.all_parent_vectors(n)
               if tg.shape_ok(v, allow_unifurcations=False, min_leaves=2) and (n <= 6 or _deep_polytomy(v))]
    common = dict(assumptions=["every non-seed edge has a length"], outside=["float rounding", "zero-length edges lying exactly at the query distance of num_lineages_at"],
                  classify=classify)
    hs = [Harness("c17_ages", "C17", c17_ages, [dict(shape=v) for v in shapes],
                  bounds=dict(shapes="%d unordered shapes without unifurcations, <= %d nodes" % (len(shapes), nmax), lengths="symbolic int in [0,1000] per edge",
                              precision="symbolic int in [0,50] / None / False / negative", forcing="none / max / min"),
                  functions=["Tree.calc_node_ages"], cost=3.0, **common),
          Harness("c17_depths", "C17", c17_depths, [dict(shape=v) for v in shapes],
                  bounds=dict(shapes="as c17_ages", heights="symbolic integer node heights, parents strictly above children (exactly ultrametric, positive lengths)",
                              query="symbolic distance for num_lineages_at"),
                  functions=["Tree.calc_node_ages", "internal_node_ages", "set_edge_lengths_from_node_ages", "resolve_node_depths", "resolve_node_ages",
                             "calc_node_root_distances", "num_lineages_at", "length", "max_distance_from_root", "minmax_leaf_distance_from_root"], cost=2.0, **common),
          Harness("c17_shape_stats", "C17", c17_shape_stats, [(dict(shape=v) if len(v) <= 5 else dict(shape=v, stat=3)) for v in ordered],
                  bounds=dict(shapes="%d ordered shapes without unifurcations: all with <= 6 nodes, those with a polytomy below the root up to %d nodes" % (len(ordered), 8 if q else 9),
                              stats="N_bar, Sackin (True/yule/pda/None/False), Colless (True/yule/pda/None/max), B1; child order reversed or not; shapes above 6 nodes: B1 only"),
                  functions=["treemeasure.N_bar", "sackin_index", "colless_tree_imbalance", "B1"], cost=1.0, **common),
          Harness("c17_treeness", "C17", c17_treeness, [dict(shape=v) for v in shapes],
                  bounds=dict(shapes="as c17_ages", lengths="symbolic int in [0,1000], total > 0 (cross-multiplied identity)"),
                  functions=["treemeasure.treeness"], cost=1.0, **common)]
    gshapes = tg.unordered_representatives([v for n in (5, 7) + (() if q else (9,)) for v in tg.all_parent_vectors(n) if _binary(v)])
    hs.append(Harness("c17_gamma", "C17", c17_gamma, [dict(shape=v) for v in gshapes],
                      bounds=dict(shapes="%d binary shapes, 3..%d leaves" % (len(gshapes), 4 if q else 5), heights="each internal node height a symbolic choice in 1..6 (concrete per path: sqrt/pow are C functions)"),
                      functions=["treemeasure.pybus_harvey_gamma", "Tree.calc_node_ages"], cost=1.0, **common))
    return hs
