"""C19 - character-matrix row/column operations select exactly what they name, and terminate."""
import dendropy
from dendropy.utility import error as dperror

from vlib.driver import Harness, assume, choose, Fail, with_signature

TMAX = 3
T = 2       # taxa in use (set by harnesses(): 2 quick, 3 thorough)
MAXC = 3    # row lengths 0..MAXC-1 in ragged matrices; columns 1..MAXC in export
LABELS = [None, "a", "a", "b", "A"]

COMMON = [("op", str), ("k", int), ("mtype", str)]


def _cells(ms, ncells):
    return [("v%d_%d_%d" % (m, t, c), int) for m in ms for t in range(TMAX) for c in range(ncells)]


def _rows(ms):
    return ([("len%d_%d" % (m, t), int) for m in ms for t in range(TMAX)] +
            [("has%d_%d" % (m, t), bool) for m in ms for t in range(TMAX)])


# one signature per harness: every symbolic parameter costs solver work on every path
SPEC_CONCAT = _cells((0, 1, 2), 2) + [("nc%d" % m, int) for m in range(3)] + [("lab%d" % m, int) for m in range(3)] + [("same", bool)] + COMMON
SPEC_EXPORT = _cells((0,), MAXC) + _rows((0,)) + [("sel%d" % i, bool) for i in range(MAXC)] + [("flag", bool)] + COMMON
SPEC_FILL = _cells((0,), MAXC - 1) + [("v1_0_0", int)] + _rows((0,)) + [("same", bool), ("flag", bool), ("size", int)] + COMMON
SPEC_ROWS = _cells((0, 1), MAXC - 1) + _rows((0, 1)) + [("tx%d" % i, bool) for i in range(TMAX)] + COMMON


def new_matrix(mtype, tns, label=None):
    if mtype == "continuous":
        return dendropy.ContinuousCharacterMatrix(taxon_namespace=tns, label=label)
    return dendropy.StandardCharacterMatrix(taxon_namespace=tns, label=label)


def cellval(kw, mtype, alphabet, m, t, c):
    """continuous matrices carry fully symbolic cell values; standard matrices a fixed pattern"""
    if mtype == "continuous":
        return kw["v%d_%d_%d" % (m, t, c)]
    # discrete cells: a fixed pattern by position (the operations never look at cell values; the
    # universal statement over cell values is made with the continuous matrices)
    return alphabet[["0", "1", "?"][(m + 2 * t + c) % 3]]


def snapshot(mat):
    out = {}
    for tax in mat:
        out[tax.label] = list(mat[tax].values())
    return out


def same_rows(a, b):
    if sorted(a.keys()) != sorted(b.keys()):
        return False
    for k in a:
        if len(a[k]) != len(b[k]):
            return False
        for x, y in zip(a[k], b[k]):
            if x is not y and x != y:
                return False
    return True


def build_ragged(kw, mtype, tns, taxa, m, full=False, ncols=None):
    mat = new_matrix(mtype, tns)
    alphabet = getattr(mat, "default_state_alphabet", None)
    model = {}
    for t in range(T):
        if full or kw["has%d_%d" % (m, t)]:
            n = ncols if ncols is not None else choose(kw["len%d_%d" % (m, t)], MAXC)
            row = [cellval(kw, mtype, alphabet, m, t, c) for c in range(n)]
            mat[taxa[t]] = row
            model[taxa[t].label] = list(row)
    return mat, model


@with_signature(SPEC_CONCAT)
def c19_concatenate(kw):
    mtype, k = kw["mtype"], kw["k"]
    tns = dendropy.TaxonNamespace(["t%d" % i for i in range(T)])
    taxa = list(tns)
    mats, models, ncols = [], [], []
    for m in range(k):
        nc = 1 + choose(kw["nc%d" % m], 2)
        mat, model = build_ragged(kw, mtype, tns, taxa, m, full=True, ncols=nc)
        mat.label = LABELS[choose(kw["lab%d" % m], len(LABELS))]
        mats.append(mat)
        models.append(model)
        ncols.append(nc)
    if kw["same"] and k >= 2:
        mats[k - 1], models[k - 1], ncols[k - 1] = mats[0], models[0], ncols[0]   # the same object twice
    before = [snapshot(x) for x in mats]
    cls = type(mats[0])
    res = cls.concatenate(mats)
    exp = {}
    for t in taxa:
        row = []
        for model in models:
            row.extend(model[t.label])
        exp[t.label] = row
    if not same_rows(snapshot(res), exp):
        return "concatenation-not-sequences-in-argument-order"
    if res.taxon_namespace is not tns:
        return "concatenation-other-namespace"
    subsets = list(res.character_subsets.values())
    if len(subsets) != k:
        return "not-one-character-subset-per-source-matrix"
    pos = 0
    for cs, nc in zip(subsets, ncols):
        if list(cs.character_indices) != list(range(pos, pos + nc)):
            return "character-subset-does-not-cover-its-matrix-columns"
        pos += nc
    labs = [cs.label for cs in subsets]
    if len(set(str(x).lower() for x in labs)) != len(labs):
        return "character-subset-labels-not-distinct"
    for x, b in zip(mats, before):
        if not same_rows(snapshot(x), b):
            return "concatenate-altered-an-argument"
    # matrices over a different namespace are refused
    other = new_matrix(mtype, dendropy.TaxonNamespace(["t%d" % i for i in range(T)]))
    for t in other.taxon_namespace:
        other[t] = list(mats[0][taxa[0]].values())
    try:
        cls.concatenate([mats[0], other])
        return "concatenate-accepted-different-namespace"
    except (ValueError, dperror.TaxonNamespaceIdentityError):
        pass
    return True


@with_signature(SPEC_EXPORT)
def c19_export(kw):
    mtype = kw["mtype"]
    tns = dendropy.TaxonNamespace(["t%d" % i for i in range(T)])
    taxa = list(tns)
    # ragged on purpose: rows of different lengths (0..MAXC cells), every taxon present
    mat = new_matrix(mtype, tns)
    alphabet = getattr(mat, "default_state_alphabet", None)
    model = {}
    for t in range(T):
        n = choose(kw["len0_%d" % t], MAXC + 1)
        row = [cellval(kw, mtype, alphabet, 0, t, c) for c in range(n)]
        mat[taxa[t]] = row
        model[taxa[t].label] = list(row)
    sel = [i for i in range(MAXC) if kw["sel%d" % i]]
    before = snapshot(mat)
    if kw["flag"]:
        mat.new_character_subset(label="s", character_indices=list(reversed(sel)))
        res = mat.export_character_subset("s")
    else:
        res = mat.export_character_indices(list(reversed(sel)))
    exp = {}
    for t in taxa:
        exp[t.label] = [model[t.label][i] for i in sel if i < len(model[t.label])]
    if not same_rows(snapshot(res), exp):
        return "export-not-the-selected-columns-in-ascending-order"
    if not same_rows(snapshot(mat), before):
        return "export-altered-the-source"
    if res is mat:
        return "export-returned-the-source"
    return True


@with_signature(SPEC_FILL)
def c19_fill(kw):
    mtype = kw["mtype"]
    tns = dendropy.TaxonNamespace(["t%d" % i for i in range(T)])
    taxa = list(tns)
    mat, model = build_ragged(kw, mtype, tns, taxa, 0)
    op = kw["op"]
    append = True if kw["flag"] else False
    alphabet = getattr(mat, "default_state_alphabet", None)
    fillv = cellval(kw, mtype, alphabet, 1, 0, 0)
    maxlen = max([len(r) for r in model.values()] + [0])
    if op == "fill_taxa":
        mat.fill_taxa()
        for t in taxa:
            exp = model.get(t.label, [])
            got = list(mat[t].values())
            if len(got) != len(exp):
                return "fill_taxa-altered-a-sequence"
        if len(mat) != T:
            return "fill_taxa-did-not-add-every-taxon"
        return True
    size = None
    if kw["same"]:
        size = choose(kw["size"], MAXC + 2)
    if op == "fill":
        assume(len(model) > 0)
        mat.fill(fillv, size=size, append=append)
        rows = list(model.keys())
    else:
        mat.pack(fillv, size=size, append=append)
        rows = [t.label for t in taxa]
    target = maxlen if size is None else size
    for lab in rows:
        old = model.get(lab, [])
        got = list(mat[tns.get_taxon(lab)].values())
        n = max(len(old), target)
        if len(got) != n:
            return "fill-lengths-not-equalised"
        pad = n - len(old)
        kept = got[:len(old)] if append else got[pad:]
        filled = got[len(old):] if append else got[:pad]
        for x, y in zip(kept, old):
            if x is not y and x != y:
                return "fill-altered-an-existing-cell"
        for x in filled:
            if x is not fillv and x != fillv:
                return "fill-used-wrong-value"
    if len(mat) != len(rows):
        return "fill-changed-the-set-of-rows"
    return True


ROW_OPS = ["add_sequences", "replace_sequences", "update_sequences", "extend_sequences", "extend_sequences_add",
           "extend_matrix", "remove_sequences", "discard_sequences", "keep_sequences"]


@with_signature(SPEC_ROWS)
def c19_rows(kw):
    mtype, op = kw["mtype"], kw["op"]
    tns = dendropy.TaxonNamespace(["t%d" % i for i in range(T)])
    taxa = list(tns)
    A, ma = build_ragged(kw, mtype, tns, taxa, 0)
    B, mb = build_ragged(kw, mtype, tns, taxa, 1)
    before_b = snapshot(B)
    exp = dict((k, list(v)) for k, v in ma.items())
    if op in ("remove_sequences", "discard_sequences", "keep_sequences"):
        named = [taxa[i] for i in range(T) if kw["tx%d" % i]]
        labs = [t.label for t in named]
        if op == "remove_sequences":
            missing = [l for l in labs if l not in ma]
            try:
                A.remove_sequences(named)
                if missing:
                    return "remove-of-absent-sequence-did-not-raise"
            except KeyError:
                return True if missing else "remove-raised-for-present-sequences"
            exp = dict((k, v) for k, v in ma.items() if k not in labs)
        elif op == "discard_sequences":
            A.discard_sequences(named)
            exp = dict((k, v) for k, v in ma.items() if k not in labs)
        else:
            A.keep_sequences(named)
            exp = dict((k, v) for k, v in ma.items() if k in labs)
    else:
        if op == "add_sequences":
            A.add_sequences(B)
            for k2 in mb:
                if k2 not in exp:
                    exp[k2] = list(mb[k2])
        elif op == "replace_sequences":
            A.replace_sequences(B)
            for k2 in mb:
                if k2 in exp:
                    exp[k2] = list(mb[k2])
        elif op == "update_sequences":
            A.update_sequences(B)
            for k2 in mb:
                exp[k2] = list(mb[k2])
        elif op in ("extend_sequences", "extend_sequences_add", "extend_matrix"):
            addnew = op != "extend_sequences"
            if op == "extend_matrix":
                A.extend_matrix(B)
            else:
                A.extend_sequences(B, is_add_new_sequences=addnew)
            for k2 in mb:
                if k2 in exp:
                    exp[k2] = exp[k2] + list(mb[k2])
                elif addnew:
                    exp[k2] = list(mb[k2])
        else:
            raise Fail("harness:op")
        if not same_rows(snapshot(B), before_b):
            return "operation-altered-its-argument-matrix"
        # rows copied from B must be independent of B afterwards
        for t in taxa:
            if t in A and t in B and A[t] is B[t]:
                return "operation-shares-a-sequence-object-with-its-argument"
        other = new_matrix(mtype, dendropy.TaxonNamespace(["t%d" % i for i in range(T)]))
        try:
            getattr(A, "extend_sequences" if op.startswith("extend_sequences") else op)(other)
            return "operation-accepted-different-namespace"
        except dperror.TaxonNamespaceIdentityError:
            pass
    if not same_rows(snapshot(A), exp):
        return "rows-changed-differ-from-documentation"
    return True


def classify(inp):
    return inp.get("op", "")


BUDGET = dict(quick=200, thorough=900)


def harnesses(tier):
    global T
    q = tier == "quick"
    T = 2 if q else 3
    common = dict(assumptions=["cells of continuous matrices are fully symbolic values (the operations must never look at them)",
                               "standard matrices: cells are a fixed pattern of 0/1/? by position"],
                  outside=["matrices beyond the stated numbers of taxa and columns", "other data types", "sequences of more than one operation"], classify=classify)
    hs = []
    types = ["continuous", "standard"]
    # row presence of the first matrix is split over shards (concrete per shard) for parallelism
    import itertools
    pres = [dict(("has0_%d" % i, bool(b)) for i, b in enumerate(bits)) for bits in itertools.product((0, 1), repeat=T)]
    hs.append(Harness("c19_concatenate", "C19", c19_concatenate,
                      [dict(op="concatenate", k=k, mtype=mt, lab0=l0, same=sm) for k in ((1, 2) if q else (1, 2, 3)) for mt in types
                       for l0 in range(len(LABELS)) for sm in ((False, True) if k > 1 else (False,))],
                      bounds=dict(matrices="1..%d matrices over one namespace of %d taxa, 1..2 columns each (symbolic)" % (2 if q else 3, T),
                                  labels="each label a symbolic choice from %r (repeats and case variants); optionally the same object twice" % LABELS,
                                  termination="per-path watchdog + concrete replay"),
                      functions=["CharacterMatrix.concatenate", "extend_matrix", "new_character_subset", "add_character_subset"], cost=3.0, **common))
    hs.append(Harness("c19_export", "C19", c19_export, [dict(op="export", k=1, mtype=mt, len0_0=n) for mt in types for n in range(MAXC + 1)],
                      bounds=dict(matrix="%d taxa, ragged rows of 0..%d cells (symbolic lengths)" % (T, MAXC), indices="one symbolic bool per column, handed over in descending order",
                                  route="export_character_indices / export_character_subset (symbolic)"),
                      functions=["CharacterMatrix.export_character_indices", "export_character_subset", "new_character_subset"], cost=1.0, **common))
    hs.append(Harness("c19_fill", "C19", c19_fill, [dict(op=op, k=1, mtype=mt, **pr) for op in ("fill", "fill_taxa", "pack") for mt in types for pr in pres],
                      bounds=dict(matrix="ragged: each of %d taxa present or not, 0..%d cells (symbolic)" % (T, MAXC - 1), size="None or symbolic 0..5", append="symbolic"),
                      functions=["CharacterMatrix.fill", "fill_taxa", "pack"], cost=2.0, **common))
    hs.append(Harness("c19_rows", "C19", c19_rows, [dict(op=op, k=2, mtype=mt, **pr) for op in ROW_OPS for mt in (types if not q else ["continuous"]) for pr in pres],
                      bounds=dict(matrices="two ragged matrices (%d taxa; rows present or not, 0..%d cells, all symbolic) over one namespace" % (T, MAXC - 1), named="symbolic subset of the taxa for remove/discard/keep"),
                      functions=["CharacterMatrix." + o for o in ROW_OPS if not o.endswith("_add")], cost=3.0, **common))
    return hs
