TB = "Trusted: CPython, CrossHair 0.0.110, z3 5.1; floats modelled as reals (integers exact); environment stubs (SymRng, Sink/SymStream) as listed in the evidence; nothing is claimed beyond the stated bounds."

claim("C07",
      "Bounded symbolic execution of the real re-rooting code: for every ordered tree shape up to the stated node count, every operation, "
      "every target and flag setting, the edge lengths are symbolic integers and z3 decides every branch of the implementation and of the "
      "oracle (leaf set, unrooted splits, total length, all leaf-to-leaf path lengths, midpoint equidistance, edge-rooting distances, "
      "outgroup position, rooting flag). An exhausted path tree means the property holds for every length vector within the bound; "
      "counterexamples are replayed concretely before being reported.",
      TB, "symbolic execution (CrossHair+z3) of Tree.reroot_*/reseed_at/... with symbolic edge lengths, exhaustive path exploration per shape",
      "DESIGN.md 3/C07")
