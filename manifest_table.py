TB = "Trusted: CPython, CrossHair 0.0.110, z3 5.1; floats modelled as reals (integers exact); environment stubs (SymRng, Sink/SymStream) as listed in the evidence; nothing is claimed beyond the stated bounds."

claim("C07",
      "Bounded symbolic execution of the real re-rooting code: for every ordered tree shape up to the stated node count, every operation, "
      "every target and flag setting, the edge lengths are symbolic integers and z3 decides every branch of the implementation and of the "
      "oracle (leaf set, unrooted splits, total length, all leaf-to-leaf path lengths, midpoint equidistance, edge-rooting distances, "
      "outgroup position, rooting flag). An exhausted path tree means the property holds for every length vector within the bound; "
      "counterexamples are replayed concretely before being reported.",
      TB, "symbolic execution (CrossHair+z3) of Tree.reroot_*/reseed_at/... with symbolic edge lengths, exhaustive path exploration per shape",
      "DESIGN.md 3/C07")

claim("C15",
      "Bounded symbolic execution of every node/edge iterator of Tree and Node: for every ordered rooted shape up to the stated node count "
      "(single node, unifurcations, polytomies), the start node, the iterator kind, the filter predicate (one symbolic bool per node, also as "
      "truthy/falsy objects), the exclusion flags, the subset of apply-callbacks and the node ages are symbolic; the result is compared with "
      "recursive reference traversals over the raw links. Exhausted path tree = holds for every predicate/start/age vector in the bound.",
      TB, "symbolic execution (CrossHair+z3) of the real iterators with symbolic filter predicates, start nodes and ages; exhaustive path exploration per shape",
      "DESIGN.md 3/C15")

claim("C03",
      "Inductive step by bounded symbolic execution: from every valid tree within the bound (every ordered shape incl. unifurcations, rooting, "
      "lengths present/absent, a leaf without taxon, encoding current or absent) one public mutator (32 of them) is run with symbolic targets, "
      "taxon subsets, flags and RNG draws; afterwards the raw links must form a single arborescence, iterators must visit exactly the reachable "
      "nodes, the leaf-taxon multiset may change only as requested, and an updated encoding must equal a first-principles recomputation. "
      "A second harness composes two operations. Well-formedness is the inductive invariant, so one step from an arbitrary valid state covers "
      "histories whose intermediate trees stay inside the bound.",
      TB, "symbolic execution (CrossHair+z3) of one/two mutators from an arbitrary valid pre-state; well-formedness invariant checked on raw links",
      "DESIGN.md 3/C03")

claim("C08",
      "Bounded symbolic execution of the 12 pruning/retaining/extraction variants: shape per shard, kept subset as one symbolic bool per leaf, "
      "edge lengths symbolic integers or missing (patterns incl. the seed edge), flags symbolic. Oracle from raw links of the original tree: "
      "induced clades / unrooted splits, all surviving leaf-to-leaf path lengths (linear arithmetic decided by z3 for every length vector), "
      "single-survivor accumulated length, unifurcation suppression, source tree unchanged and extraction_source mapping, reported removed nodes.",
      TB, "symbolic execution (CrossHair+z3) of prune/retain/extract with symbolic subsets and edge lengths against an induced-subtree oracle",
      "DESIGN.md 3/C08")
