TB = "Trusted: CPython, CrossHair 0.0.110, z3 5.1; floats modelled as reals (integers exact); environment stubs (SymRng, Sink/SymStream) as listed in the evidence; nothing is claimed beyond the stated bounds."

claim("C07",
      "Bounded symbolic execution of the real re-rooting code: for every ordered tree shape up to the stated node count, every operation, "
      "every target and flag setting, the edge lengths are symbolic integers and z3 decides every branch of the implementation and of the "
      "oracle (leaf set, unrooted splits, total length, all leaf-to-leaf path lengths, midpoint equidistance, edge-rooting distances, "
      "outgroup position, rooting flag). An exhausted path tree means the property holds for every length vector within the bound; "
      "counterexamples are replayed concretely before being reported.",
      TB, "symbolic execution (CrossHair+z3) of Tree.reroot_*/reseed_at/... with symbolic edge lengths, exhaustive path exploration per shape",
      "DESIGN.md 3/C07")

claim("C15",
      "Bounded symbolic execution of every node/edge iterator of Tree and Node: for every ordered rooted shape up to the stated node count "
      "(single node, unifurcations, polytomies), the start node, the iterator kind, the filter predicate (one symbolic bool per node, also as "
      "truthy/falsy objects), the exclusion flags, the subset of apply-callbacks and the node ages are symbolic; the result is compared with "
      "recursive reference traversals over the raw links. Exhausted path tree = holds for every predicate/start/age vector in the bound.",
      TB, "symbolic execution (CrossHair+z3) of the real iterators with symbolic filter predicates, start nodes and ages; exhaustive path exploration per shape",
      "DESIGN.md 3/C15")

claim("C03",
      "Inductive step by bounded symbolic execution: from every valid tree within the bound (every ordered shape incl. unifurcations, rooting, "
      "lengths present/absent, a leaf without taxon, encoding current or absent) one public mutator (32 of them) is run with symbolic targets, "
      "taxon subsets, flags and RNG draws; afterwards the raw links must form a single arborescence, iterators must visit exactly the reachable "
      "nodes, the leaf-taxon multiset may change only as requested, and an updated encoding must equal a first-principles recomputation. "
      "A second harness composes two operations. Well-formedness is the inductive invariant, so one step from an arbitrary valid state covers "
      "histories whose intermediate trees stay inside the bound.",
      TB, "symbolic execution (CrossHair+z3) of one/two mutators from an arbitrary valid pre-state; well-formedness invariant checked on raw links",
      "DESIGN.md 3/C03")

claim("C08",
      "Bounded symbolic execution of the 12 pruning/retaining/extraction variants: shape per shard, kept subset as one symbolic bool per leaf, "
      "edge lengths symbolic integers or missing (patterns incl. the seed edge), flags symbolic. Oracle from raw links of the original tree: "
      "induced clades / unrooted splits, all surviving leaf-to-leaf path lengths (linear arithmetic decided by z3 for every length vector), "
      "single-survivor accumulated length, unifurcation suppression, source tree unchanged and extraction_source mapping, reported removed nodes.",
      TB, "symbolic execution (CrossHair+z3) of prune/retain/extract with symbolic subsets and edge lengths against an induced-subtree oracle",
      "DESIGN.md 3/C08")

claim("C01",
      "Two engines. (B) The bitmask kernels (normalize_bitmask, is_trivial_bitmask, is_compatible_bitmasks, least_significant_set_bit and the "
      "Bipartition predicate methods) are translated from their live source into z3 bit-vector terms on every run and 20 obligations "
      "(canonical form, idempotence, popcount definition of triviality, clade/four-way compatibility, nesting) are discharged as unsat for "
      "EVERY mask of the stated width (16 bits quick, 64 thorough; cvc5 cross-check in thorough); the translator is validated against the real "
      "functions on 10 000 concrete evaluations. (A) Bounded symbolic execution of encode_bipartitions / from_split_bitmasks / the predicates "
      "on real trees: every shape in the bound, symbolic taxon->bit assignment (namespaces with removed/sorted/extra taxa), rooting and every "
      "encode_bipartitions option (suppress_unifurcations, collapse_unrooted_basal_bifurcation, suppress_storage, is_bipartitions_mutable) symbolic; "
      "oracle = OR of taxon bits below each edge computed from raw links, label-set clades/splits for iff and reconstruction.",
      TB, "AST->SMT translation of the bit kernels decided by z3 over all masks (Engine B) + symbolic execution (CrossHair+z3) of encoding/reconstruction on real trees (Engine A)",
      "DESIGN.md 3/C01")

claim("C04",
      "Bounded symbolic execution of treecompare on pairs of real trees: all pairs of unordered shapes in the bound, symbolic relabelling, "
      "rooting, and a symbolic integer length on every edge of both trees. Oracle: split -> summed edge length maps computed from raw links; "
      "z3 proves |S1 symdiff S2|, FP/FN and the L1 identity of weighted RF for every length vector (abs() stays an ite term), Euclidean on small "
      "patterns, symmetry of value and of definedness with a missing length, staleness after a structural edit between two calls, and refusal "
      "of different namespaces. The metric axioms (zero on re-drawings, symmetry, triangle inequality) follow from the verified identities.",
      TB, "symbolic execution (CrossHair+z3) of the distance functions with symbolic edge lengths against a split/length-map oracle",
      "DESIGN.md 3/C04")

claim("C10",
      "Inductive step by bounded symbolic execution from an arbitrary valid namespace constructed directly (members in arbitrary list order, "
      "arbitrary distinct accession indices, counter, partly filled mask cache): one of 20 operations (add/new/require/remove/discard/sort/"
      "reverse/clear/relabel/delete/copy/deepcopy/copy-constructor/remove+add history) with symbolic targets, labels, case-sensitivity settings; "
      "afterwards every surviving member has its original single bit, bits are pairwise distinct, new members get fresh bits, copies carry "
      "the originals' bits, immutable namespaces refuse. Further harnesses: mask<->taxa round trips and all textual renderings for symbolic "
      "subsets; label lookups against a membership-order model under every namespace/call case setting, also after a relabel.",
      TB + " Label strings in the lookup harness are symbolic choices from pools (symbolic str.lower() costs >1 s/path in z3).",
      "symbolic execution (CrossHair+z3) of one namespace operation from an arbitrary valid pre-state; bit-stability invariant and lookup model",
      "DESIGN.md 3/C10")

claim("C14",
      "Bounded symbolic execution of PhylogeneticDistanceMatrix / NodeDistanceMatrix / Tree.mrca / nj_tree / upgma_tree: shapes per shard, "
      "symbolic integer edge lengths (or missing), symbolic pairs and assemblages. Oracle via ancestor chains over raw links: path sums, edge "
      "counts, turning node, symmetry, zero diagonal, mean pairwise and mean-nearest-taxon distances (cross-multiplied, fork-free min), maximal "
      "pair; Tree.mrca = deepest covering node by all three query routes with never-encoded, current and stale-with-refresh encodings; NJ on a "
      "binary tree with symbolic positive lengths returns the same unrooted splits and path lengths, UPGMA on symbolic node heights the same "
      "clades and heights (tolerance 1e-9 because of the 1.0/(2(n-2)) float constants); CSV round trip on concrete values.",
      TB, "symbolic execution (CrossHair+z3) of distance-matrix compilation, MRCA search, NJ and UPGMA with symbolic edge lengths against ancestor-chain oracles",
      "DESIGN.md 3/C14")

claim("C16",
      "Bounded symbolic execution of parsimony_score / fitch_down_pass: rooted binary shapes per shard, every matrix cell a symbolic choice "
      "over nucleotides, an ambiguity code, gap and missing, gaps_as_missing symbolic, and symbolic integer weights (the score is linear in "
      "them, so z3 decides the identity score == sum w_j * min_j for every weight vector). Oracle: Sankoff dynamic programme over all "
      "assignments of states to internal nodes (independent of Fitch). Also: per-character scores add up, invariance under rerooting at a "
      "symbolic edge and child reversal, and purity under call histories (m1, m2 = m1 with one symbolic cell changed, m1 again, other gap "
      "treatment on the same matrix object).",
      TB, "symbolic execution (CrossHair+z3) of Fitch scoring with symbolic weights and symbolic cell choices against a Sankoff DP oracle, incl. call histories",
      "DESIGN.md 3/C16")

claim("C17",
      "Bounded symbolic execution of calc_node_ages and friends with symbolic integer edge lengths and a symbolic precision (or None/False/"
      "negative) and forcing option: if all root-to-tip sums agree within the precision the call must succeed and every age lies within the "
      "precision of every tip distance, otherwise UltrametricityError unless disabled/forced (forced ages = max/min over children); spread "
      "computed fork-free so z3 decides both sides of the precision for every length vector. Exactly ultrametric trees from symbolic node "
      "heights: ages, depths, root distances, age->length round trip, lineage counts at a symbolic distance, tree length. Statistics: N-bar, "
      "Sackin, Colless (every normalisation), B1 on every ordered shape in the bound against independent recursive definitions and under "
      "child reversal; treeness as a cross-multiplied identity over symbolic lengths; Pybus-Harvey gamma on concrete small heights.",
      TB + " sqrt/log/pow based constants are concrete per shape.", "symbolic execution (CrossHair+z3) of node-age computation with symbolic lengths and precision; shape-exhaustive comparison of tree statistics with independent definitions",
      "DESIGN.md 3/C17")

claim("C19",
      "Bounded symbolic execution of the CharacterMatrix row/column operations. Continuous matrices carry fully symbolic cell values, so "
      "'exactly the cells named, unaltered' is decided for every cell value; row presence, row lengths, index sets, taxon subsets, labels "
      "(repeats, case variants, the same object twice), fill size and direction are symbolic. Harness-side model (label -> list of cells): "
      "concatenation in argument order with one character subset per source covering its columns, exports of ragged matrices, fill/pack, the "
      "nine row operations, arguments unchanged and unshared, other namespaces refused. Termination is checked by a per-path watchdog whose "
      "candidates are replayed concretely.",
      TB, "symbolic execution (CrossHair+z3) of matrix operations with symbolic cell values/row lengths/index sets against a list model; watchdog for non-termination",
      "DESIGN.md 3/C19")

claim("C20",
      "Bounded symbolic execution of the Newick, NEXUS, PHYLIP and FASTA readers on three input families fed through a pure-Python stream: "
      "(1) every prefix of every corpus document (all block structures), the cut point a symbolic integer; (2) every single-character "
      "replace/delete/insert edit at a symbolic position with a symbolic choice of character from the token alphabet; (3) arbitrary symbolic "
      "strings over the token alphabet up to a length bound (Newick, and as the body of a NEXUS TREE statement). Oracle: the reader terminates "
      "(per-path watchdog, concrete replay of hang candidates), and either returns well-formed trees / a matrix whose rows and columns match "
      "the dimensions declared in the text it actually read, or raises a DataParseError (or the documented ValueError for an empty source); "
      "AttributeError/IndexError/TypeError/KeyError/RecursionError/... from inside dendropy are failures.",
      TB, "symbolic execution (CrossHair+z3) of the readers over symbolic truncation points, edit positions/characters and symbolic strings; watchdog for non-termination",
      "DESIGN.md 3/C20")

claim("C02",
      "Bounded symbolic execution of the writers and readers connected through pure-Python streams. (1) Label rule: the label is a fully "
      "symbolic string (length bound, alphabet of letters, digits, blank, tab, underscore, quotes, brackets, every NEXUS punctuation mark, a "
      "non-ASCII letter); escape_nexus_token (both protect_regex variants, the tree-statement one read from the live source) followed by the "
      "real NexusTokenizer must give back exactly [label, ';'] for every consistent option pair - z3's sequence theory decides the regex and "
      "delimiter tests for every string in the bound. (2) Whole tree lists through Newick and NEXUS: shapes per shard, adversarial label pool, "
      "namespace order, TRANSLATE, internal labels, rooting states and tokens, weights, missing/integer/float/scientific lengths. (3) NeXML with "
      "labels needing XML escaping. Numbers and XML are concrete per path (float<->text and expat are C boundaries).",
      TB, "symbolic execution (CrossHair+z3 sequence theory) of escape_nexus_token + NexusTokenizer on symbolic labels; symbolic-choice driven write/read round trips of real trees",
      "DESIGN.md 3/C02")

claim("C13",
      "Bounded symbolic execution over a document grammar: Newick, NEXUS (TAXA + one or two TREES blocks, TRANSLATE per block with a reversed "
      "table) and NeXML documents are assembled from symbolic choices (tree bodies incl. numeral labels, rooting/weight tokens, plain and "
      "metadata comments, distribution over blocks, reader options, fresh or pre-populated namespace, namespace shared with the reference read "
      "or owned by the route). Every route - Tree.get by offsets, TreeList.read, Tree.yield_from_files, DataSet.get, TreeArray.read, "
      "data=/file=/path= - is compared with TreeList.get: structure, labels, lengths, rooting, weight, tree label, comments, annotations, taxon "
      "identity or namespace label order. A second grammar (c13_mixed) puts CHARACTERS and SETS blocks (charset forms ALL, ranges, '.', stride) around "
      "TREES blocks with exponent/negative lengths and hyphenated names, in three block orders, and compares the tree routes and the matrix routes "
      "with the data-set route. The text is concrete per path; the solver's part is the exhaustive, non-redundant walk of the grammar.",
      TB, "symbolic-choice driven (CrossHair+z3) exhaustive walk of a document grammar through every reading route, compared pairwise",
      "DESIGN.md 3/C13")

claim("C18",
      "Bounded symbolic execution of the simulators with a symbolic random generator: every draw of expovariate/random/randint/choice/sample/"
      "shuffle is a symbolic value constrained only by the method's range (reals on a 1e-6 grid so that no float artefacts arise), rates and "
      "population sizes are concrete per shard so all arithmetic is linear. For every draw vector within the budget: exactly N extant leaves "
      "with N distinct member taxa, bifurcating, well formed, all tips equidistant from the root (a linear identity in the symbolic waiting "
      "times), Kingman trees one leaf per taxon and ultrametric, contained gene trees never join species before their divergence; the global "
      "generator is a tripwire, and a second run fed the same draws must return the same tree.",
      TB + " SymRng contract as stated in the evidence; paths needing more draws than the budget are outside the bound and counted.",
      "symbolic execution (CrossHair+z3) of the simulators under a symbolic RNG stub (every draw a solver variable)",
      "DESIGN.md 3/C18")

claim("C12",
      "Bounded symbolic execution of every copy route of Tree (deepcopy, clone(0/1/2), copy constructor, copy.copy, extract_tree) and of "
      "TreeList, CharacterMatrix and TaxonNamespace, with symbolic edge lengths, annotation values and cell values, then ONE symbolic "
      "mutation of either side. Checked: value-level equality of copy and source (structure, labels, lengths, rooting, comments, annotation "
      "name/value lists, encoding), an identity census (nodes, edges, annotation objects and sets, comment lists disjoint; taxa and namespace "
      "disjoint for deep copies and exactly shared for scoped ones, leaf by leaf), attribute-bound annotations re-bound to the copy's own "
      "objects (also when bound to another owner), and that the mutation is invisible through the other object.",
      TB, "symbolic execution (CrossHair+z3) of copy routes with symbolic contents followed by a symbolic mutation; identity census and snapshot comparison",
      "DESIGN.md 3/C12")

claim("C11",
      "Bounded symbolic execution of the container operations of TreeList, DataSet, CharacterMatrix and Tree that move members between "
      "namespaces: source label sets (equal, case variants, overlapping, disjoint), destination contents and case sensitivity, import "
      "strategy, positions and memo contents are symbolic choices; one operation per shard (append/insert/extend/+=/+/item and slice "
      "assignment/read/new_tree/constructor/migrate with and without a caller memo; DataSet add+unify with and without a target, unify "
      "after a component was migrated elsewhere, attach+new_*, reads into an attached namespace; matrix migrate/reconstruct/new_sequence), "
      "optionally followed by a removal. Oracle: every member refers to the container's namespace object, every node/sequence taxon is a "
      "member, and after label-based migration equal labels (under the destination's case rule) sit on one taxon, different labels on "
      "different taxa, with no label present twice.",
      TB, "symbolic-choice driven (CrossHair+z3) execution of container operations with a namespace-closure and label-unification oracle",
      "DESIGN.md 3/C11")

claim("C05",
      "Bounded symbolic execution of SplitDistribution / TreeArray / the summarizer on collections of real trees: every tree is a symbolic "
      "choice from a pool of labelled topologies on four taxa (binary, partly resolved, star), rooting symbolic, tree weights symbolic "
      "integers (frequencies are then quotients of symbolic sums, compared cross-multiplied), thresholds a symbolic choice of the standard "
      "cut-offs. Oracle from label sets: frequency of every grouping and none for absent ones; consensus above one half = exactly the "
      "groupings reaching the threshold, below = pairwise compatible, none under the threshold, maximal in frequency order, spanning every "
      "taxon once with the inputs' rooting; collapsing removes exactly the weak internal edges and keeps every root-to-tip distance for all "
      "symbolic lengths; node support / label / percentages and edge-length mean, median, range, sd on summarised trees, also after the "
      "collection has grown; node-age mean, median, range, sd (and mean-age / median-age edge lengths) for rooted ultrametric inputs; trees with and "
      "without an explicit weight mixed; maximum-credibility trees attain the maximum of the reported scores.",
      TB + " Summaries that call sqrt/log run on concrete values per path.", "symbolic execution (CrossHair+z3) of split counting, consensus, collapsing and summarising with symbolic tree choices and symbolic integer weights",
      "DESIGN.md 3/C05")

claim("C06",
      "Bounded symbolic execution of the merge algebra of TreeArray/SplitDistribution and of the real SumTrees scheduler code. Merge: trees "
      "from a pool are assigned to 1..3 sub-collections by symbolic choices (empty parts reachable), parts arrive in a symbolic order and are "
      "merged with a symbolic choice of update/extend/+=/+, rooting explicit or implied; the result must equal one-at-a-time accumulation in "
      "split counts, frequencies, per-split length multisets, consensus, maximum credibility score, keep its four per-tree lists aligned, "
      "allow restore_tree for every index, never fail, and leave every sub-collection unchanged. Scheduler: "
      "TreeProcessor.parallel_analyze_trees and TreeAnalysisWorker.run execute in-process with multiprocessing replaced by queue stubs whose "
      "file-to-worker assignment and result arrival order are symbolic (more workers than files included, burn-in, quiet/logging mode); the "
      "result must equal the serial run.",
      TB + " Scheduler stub contract: workers interact only through the two queues.", "symbolic execution (CrossHair+z3) of merge histories and of the SumTrees scheduler with symbolic schedules through queue stubs",
      "DESIGN.md 3/C06")

claim("C09",
      "Bounded symbolic execution of matrix writers and readers: for every data type x format pair the format can represent (one shard each), "
      "matrices of 1..3 taxa x 1..3 characters whose cells run over the type's FULL symbol set (a symbolic base symbol, the other cells rotated "
      "relative to it, so every fundamental state, gap, missing and ambiguity code occurs in every position across the paths), built by a "
      "symbolic choice of construction route (from_dict, parsed from NEXUS, concatenate, export_character_indices), PHYLIP strict/relaxed x "
      "sequential/interleaved; sequence lengths around the line-wrapping widths; labels needing quotes; data sets with 1..3 taxon namespaces "
      "(labels absent/distinct/identical and needing escaping) through NEXUS and NeXML. Oracle: same taxa in order, same symbol strings / equal "
      "continuous values, every component back on a namespace with exactly its own labels. Text is concrete per path.",
      TB, "symbolic-choice driven (CrossHair+z3) exhaustive walk over symbol sets, dimensions, construction routes and format options through real writers and readers",
      "DESIGN.md 3/C09")
