#!/usr/bin/env python3
"""seed_store.py <ID> <k> <detected: yes|no> <check cmd + result summary>  : copy a validated seeded change into /verif/seeded"""
import json, os, shutil, sys
pid, k, detected, summary = sys.argv[1:5]
src = "/tmp/seed_%s/%s" % (pid, k)
dst = "/verif/seeded/%s/%s" % (pid, k)
os.makedirs(dst, exist_ok=True)
shutil.copy(src + "/patch.diff", dst + "/patch.diff")
shutil.copy(src + "/demo.py", dst + "/demo.py")
notes = open(src + "/notes.txt").read() if os.path.exists(src + "/notes.txt") else ""
val = open(src + "/validate.txt").read() if os.path.exists(src + "/validate.txt") else ""
meta = dict(property=pid, change=k, author="independent sub-agent given only the property text and a scratch worktree",
            what_and_needs_to_manifest=notes.strip(),
            validated_by_me=dict(how="scripts/seed_validate.sh in a scratch worktree: demo on clean tree, git apply, demo on changed tree, full test-suite on changed tree",
                                 result=[l for l in val.splitlines() if not l.startswith("FAILED")]),
            detected_by_check=(detected == "yes"), check_run=summary)
json.dump(meta, open(dst + "/meta.json", "w"), indent=1)
print("stored", dst)
