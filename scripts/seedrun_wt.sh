#!/bin/sh
# usage: seedrun_wt.sh <ID> <patchfile> <worktree> [check args...] : apply a seeded change inside a scratch worktree
# (never /repo), run the check against that worktree's source (VERIF_REPO_SRC), undo it.  No evidence is written.
ID=$1; P=$2; WT=$3; shift 3
if [ -n "$(git -C "$WT" status --porcelain)" ]; then echo "worktree not clean"; exit 3; fi
if ! git -C "$WT" apply "$P"; then echo "APPLY-FAILED $P"; exit 3; fi
cd "$(dirname "$0")/.."
VERIF_REPO_SRC="$WT/src" ./check $ID --no-evidence "$@"; rc=$?
git -C "$WT" checkout -- .
exit $rc
