#!/bin/sh
# Runs the repository test-suite (guard off) and prints the summary + failing test ids.
cd /repo && /venv/bin/python -m pytest -q -p no:cacheprovider --timeout=900 --continue-on-collection-errors tests 2>&1 | grep -E "^FAILED|^ERROR|passed|failed" | cut -c1-160
