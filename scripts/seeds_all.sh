#!/bin/sh
# usage: seeds_all.sh <scratch worktree of /repo at HEAD> [ID ...]
# Applies every stored seeded change (seeded/<ID>/<k>/patch.diff) in the scratch worktree - never in /repo -, runs the
# property's quick check against it and prints one line per change.  A change counts as detected when the check exits 1
# with a VIOLATION line.  (About 3 minutes per change on 16 cores.)
WT=$1; shift
IDS=${@:-$(ls "$(dirname "$0")/../seeded")}
cd "$(dirname "$0")/.."
for id in $IDS; do
  for d in seeded/$id/*/; do
    k=$(basename "$d")
    out=$(scripts/seedrun_wt.sh "$id" "$PWD/$d/patch.diff" "$WT" --tier quick 2>&1); rc=$?
    echo "$id/$k exit=$rc violations=$(echo "$out" | grep -c '^VIOLATION') $(echo "$out" | grep -A1 '^VIOLATION' | grep 'harness=' | head -1 | cut -c1-120)"
  done
done
