#!/bin/sh
# usage: runall.sh <tier> [ids...] : run the checks one after the other, log a summary line per property
TIER=${1:-quick}; shift
IDS=${@:-"C01 C02 C03 C04 C05 C06 C07 C08 C09 C10 C11 C12 C13 C14 C15 C16 C17 C18 C19 C20"}
cd "$(dirname "$0")/.."
mkdir -p scratch/runall
for id in $IDS; do
  s=$(date +%s)
  ./check $id --tier $TIER > scratch/runall/$id.$TIER.log 2>&1
  rc=$?
  e=$(date +%s)
  echo "$id tier=$TIER exit=$rc wall=$((e-s))s $(grep -c '^VIOLATION' scratch/runall/$id.$TIER.log) violations $(grep -c 'HARNESS-ERROR' scratch/runall/$id.$TIER.log) harness-errors $(grep -c 'INCONCLUSIVE' scratch/runall/$id.$TIER.log) inconclusive $(grep -c 'HOLDS' scratch/runall/$id.$TIER.log) holds" >> scratch/runall/summary.$TIER.txt
done
