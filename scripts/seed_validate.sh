#!/bin/sh
# usage: seed_validate.sh <ID> <worktree> <seeddir>   -- validates every change dir under seeddir in the scratch worktree
ID=$1; WT=$2; SD=$3
for d in "$SD"/*/; do
  k=$(basename "$d")
  [ -f "$d/patch.diff" ] || continue
  out="$d/validate.txt"; : > "$out"
  git -C "$WT" checkout -q -- . 
  (cd "$WT" && PYTHONPATH="$WT/src" /venv/bin/python "$d/demo.py" >/dev/null 2>&1); echo "demo_clean_exit=$?" >> "$out"
  if git -C "$WT" apply "$d/patch.diff"; then echo "apply=ok" >> "$out"; else echo "apply=FAILED" >> "$out"; continue; fi
  (cd "$WT" && PYTHONPATH="$WT/src" /venv/bin/python "$d/demo.py" >/dev/null 2>&1); echo "demo_changed_exit=$?" >> "$out"
  (cd "$WT" && PYTHONPATH="$WT/src" /venv/bin/python -m pytest -q -p no:cacheprovider --timeout=900 --continue-on-collection-errors tests 2>&1 | grep -E "^FAILED|^ERROR|passed|failed" | cut -c1-150) >> "$out"
  git -C "$WT" checkout -q -- .
done
