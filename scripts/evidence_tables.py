#!/usr/bin/env python3
"""Print the per-property coverage tables of DESIGN.md 7.5 from the evidence files of the last quick and thorough runs."""
import json, os
V = os.path.dirname(os.path.dirname(os.path.abspath(__file__)))
for tier, d in (("quick", "evidence"), ("thorough", "evidence/thorough")):
    print("| property | %s: wall s | paths | solver queries | replays validated | shards exhausted / listed, per harness |" % tier)
    print("|---|---|---|---|---|---|")
    for i in range(1, 21):
        pid = "C%02d" % i
        f = os.path.join(V, d, pid + ".json")
        if not os.path.exists(f):
            continue
        e = json.load(open(f))
        if e["tier"] != tier:
            continue
        c = e["coverage"]
        parts = ["%s %d/%d" % (h["harness"].split("_", 1)[1], h.get("shards_exhausted", 0), h.get("shards", 0)) for h in c["harnesses"]]
        print("| %s | %d | %s | %s | %s | %s |" % (pid, round(e["wall_s"]), c.get("states"), c.get("transitions"), c.get("traces_validated_against_impl"), "; ".join(parts)))
    print()
