#!/bin/sh
# usage: seedrun.sh <ID> <patchfile> [check args...] : apply a seeded change to /repo, run the check, undo it.
ID=$1; P=$2; shift 2
if [ -n "$(git -C /repo status --porcelain)" ]; then echo "repo not clean"; exit 3; fi
if ! git -C /repo apply "$P"; then echo "APPLY-FAILED $P"; exit 3; fi
cd /verif && ./check "$ID" --no-evidence "$@" 2>&1 | grep -E "^VIOLATION|HARNESS-ERROR|HOLDS|INCONCLUSIVE|KNOWN|^  harness" | cut -c1-260
git -C /repo checkout -- .
