#!/bin/sh
# usage: wt_tests.sh <worktree> <outfile> : run the test-suite inside a scratch worktree
WT=$1
(cd "$WT" && PYTHONPATH="$WT/src" /venv/bin/python -m pytest -q -p no:cacheprovider --timeout=900 --continue-on-collection-errors tests 2>&1 | grep -E "^FAILED|^ERROR|passed|failed" | cut -c1-150) > "$2" 2>&1
